"""selftest of vf.ref.tinyrv0 and vf.ref.cksum (E6).

1. encoder against hand-assembled RISC-V words, decoder round trip;
2. interpreter semantics on small hand-computed programs (sign extension, shift masking, x0,
   little-endian memory, branch arithmetic, csr FIFO order);
3. the repo's directed assembly tests used as *data*: their hand-written `> expected` values must be
   what the interpreter sends to proc2mngr (the repo assembler is not used).
4. checksum formula on the two hand-computed vectors quoted in the repo tests.
"""
import inspect
import importlib

from vf.ref import tinyrv0 as T
from vf.ref import cksum as CK

GOLDEN = {
  "nop": 0x00000013,
  "addi x1, x0, 1": 0x00100093,
  "addi x1, x1, -1": 0xFFF08093,
  "add x3, x1, x2": 0x002081B3,
  "and x1, x2, x3": 0x003170B3,
  "sll x1, x2, x3": 0x003110B3,
  "srl x1, x2, x3": 0x003150B3,
  "lw x5, -4(x6)": 0xFFC32283,
  "sw x5, 8(x6)": 0x00532423,
  "sw x5, -2048(x6)": 0x80532023,
  "bne x1, x2, -8": 0xFE209CE3,
  "bne x1, x2, 2048": 0x00209063 | (1 << 7),
  "csrr x1, mngr2proc": 0xFC0020F3,
  "csrw proc2mngr, x1": 0x7C009073,
}


def _run(lines, m2p=(), data=(), data_base=0x2000):
  words, _ = T.assemble(lines)
  return T.run(T.memory_image(words, list(data), data_base), list(m2p), 0x200 + 4 * len(words))


def run():
  for asm, word in GOLDEN.items():
    words, res = T.assemble([asm])
    assert words == [word], (asm, hex(words[0]), hex(word))
    d = T.decode(word)
    assert d == (("addi", 0, 0, 0) if asm == "nop" else res[0]), (asm, d, res)
  # all fields round-trip
  for rd in (0, 1, 31):
    for rs1 in (0, 5, 31):
      for imm in (-2048, -1, 0, 1, 2047):
        for ins in (("addi", rd, rs1, imm), ("lw", rd, imm, rs1), ("sw", rd, imm, rs1)):
          assert T.decode(T.encode(ins)) == ins
      for off in (-4096, -2, 0, 2, 4094, 2048, -2048):
        assert T.decode(T.encode(("bne", rd, rs1, off))) == ("bne", rd, rs1, off)

  r = _run(["addi x1, x0, -1", "csrw proc2mngr, x1",            # sext of the immediate
            "addi x2, x0, 33", "sll x3, x1, x2", "csrw proc2mngr, x3",    # shift amount & 31
            "srl x3, x1, x2", "csrw proc2mngr, x3",
            "add x0, x1, x1", "csrw proc2mngr, x0",             # x0 stays 0
            "add x4, x1, x1", "csrw proc2mngr, x4",             # wraps mod 2^32
            "and x4, x4, x2", "csrw proc2mngr, x4"])
  assert r.out == [0xFFFFFFFF, 0xFFFFFFFE, 0x7FFFFFFF, 0, 0xFFFFFFFE, 0x20], [hex(v) for v in r.out]

  r = _run(["csrr x1, mngr2proc", "csrr x2, mngr2proc", "sw x2, -4(x1)", "lw x3, 0(x1)", "lw x4, -4(x1)",
            "csrw proc2mngr, x3", "csrw proc2mngr, x4"],
           m2p=[0x2004, 0xA1B2C3D4], data=[0x01020304, 0x11223344])
  assert r.out == [0x11223344, 0xA1B2C3D4] and r.consumed == [0x2004, 0xA1B2C3D4]
  assert bytes(r.mem[0x2000:0x2008]) == bytes([0xD4, 0xC3, 0xB2, 0xA1, 0x44, 0x33, 0x22, 0x11])   # little endian

  r = _run(["addi x1, x0, 3", "addi x2, x0, 0", "top:", "addi x2, x2, 5", "addi x1, x1, -1",
            "bne x1, x0, top", "bne x1, x0, skip", "addi x2, x2, 100", "skip:", "bne x2, x0, end",
            "addi x2, x2, 1000", "end:", "csrw proc2mngr, x2"])
  assert r.out == [115] and r.stats["br_taken_back"] == 2 and r.stats["br_nottaken_back"] == 1
  assert r.stats["br_taken_fwd"] == 1 and r.stats["br_nottaken_fwd"] == 1

  for bad in (["lw x1, 2(x0)"], ["csrr x1, 0x7c0"], ["csrw 0xfc0, x1"], ["sw x1, -4(x0)"]):
    try:
      _run(bad)
    except T.Undefined:
      pass
    else:
      raise AssertionError(f"{bad} should be undefined")

  # the repo's directed tests as data
  n = 0
  for mname in ("inst_add", "inst_addi", "inst_and", "inst_bne", "inst_csr", "inst_lw", "inst_sll",
                "inst_srl", "inst_sw"):
    mod = importlib.import_module("examples.ex03_proc.test." + mname)
    for name, fn in inspect.getmembers(mod, inspect.isfunction):
      if not (name.startswith("gen_") and name.endswith("_test")) or fn.__module__ != mod.__name__:
        continue
      if inspect.signature(fn).parameters:
        continue
      src = fn()
      if isinstance(src, list): src = "\n".join(src)
      lines, m2p, p2m, data, indata = [], [], [], [], False
      try:
        for line in src.splitlines():
          line = line.partition("#")[0].strip()
          if not line: continue
          if line.startswith(".data"):
            indata = True; continue
          if indata:
            assert line.startswith(".word"); data.append(int(line.split()[1], 0) & T.MASK32); continue
          if "<" in line:
            line, _, v = line.partition("<"); m2p.append(int(v.strip(), 0) & T.MASK32)
          elif ">" in line:
            line, _, v = line.partition(">"); p2m.append(int(v.strip(), 0) & T.MASK32)
          lines.append(line.strip())
        words, _ = T.assemble(lines)
      except (T.AsmError, ValueError):
        continue                       # two generators in the repo are not valid assembly (unused there)
      r = T.run(T.memory_image(words, data, 0x2000), m2p, 0x200 + 4 * len(words))
      assert r.out == p2m, (mname, name)
      assert len(r.consumed) == len(m2p), (mname, name)
      n += 1
  assert n >= 40, n

  assert CK.checksum([1, 2, 3, 4, 5, 6, 7, 8]) == 0x00780024
  assert CK.checksum([8, 7, 6, 5, 4, 3, 2, 1]) == 0x00CC0024
  assert CK.checksum([0xFFFF] * 8) == (((-36) & 0xFFFF) << 16) | ((-8) & 0xFFFF)
  assert CK.pack128([1, 2, 3, 4, 5, 6, 7, 8]) == 0x00080007000600050004000300020001
