"""self-test of the C18 reference memory model (hand-computed vectors, see vf/ref/mem_model.py)"""
from vf.ref import mem_model


def run():
  assert mem_model._selfcheck()
