#!/venv/bin/python
"""Self-tests of the harness's own engines (reference evaluators, parsers, models).
Each selftest module exposes run() and raises on failure."""
import importlib, os, sys, glob
HERE = os.path.dirname(os.path.abspath(__file__))
sys.path.insert(0, os.path.dirname(HERE))
sys.path.append(os.path.join(os.path.dirname(HERE), ".deps"))
sys.path.insert(0, os.environ.get("VERIF_REPO", "/repo"))
ok = True
for f in sorted(glob.glob(os.path.join(HERE, "st_*.py"))):
  name = os.path.basename(f)[:-3]
  try:
    m = importlib.import_module("selftest." + name)
    m.run()
    print("selftest", name, "ok")
  except Exception as e:
    import traceback; traceback.print_exc()
    print("selftest", name, "FAILED")
    ok = False
sys.exit(0 if ok else 1)
