"""selftest of vf.ref.arbiter_model (E6): the pointer model against a second, differently written
formulation, and the fairness monitor against a deliberately unfair arbiter."""
from vf.ref.arbiter_model import RoundRobinModel, FairnessMonitor


def _rot_formulation(n, ptr, reqs):
  full = (1 << n) - 1
  rot = ((reqs >> ptr) | (reqs << (n - ptr))) & full        # rotate right by ptr
  if rot == 0:
    return 0
  low = rot & -rot                                           # lowest set bit
  return ((low << ptr) | (low >> (n - ptr))) & full           # rotate back


def run():
  for n in range(2, 7):
    for has_en in (False, True):
      for ptr in range(n):
        for reqs in range(1 << n):
          m = RoundRobinModel(n, has_en); m.ptr = ptr
          g = m.grants(reqs)
          assert g == _rot_formulation(n, ptr, reqs), (n, ptr, reqs, g)
          assert g & (g - 1) == 0 and g & ~reqs == 0 and (g != 0) == (reqs != 0)
          for en in (0, 1):
            m2 = RoundRobinModel(n, has_en); m2.ptr = ptr
            m2.tick(reqs, en, 0)
            if g and (en or not has_en):
              assert m2.pointer_onehot() == (((g << 1) | (g >> (n - 1))) & ((1 << n) - 1))
            else:
              assert m2.ptr == ptr
            m2.tick(reqs, en, 1)
            assert m2.ptr == 0
  # the model's own traces are fair; a fixed-priority arbiter is flagged
  for n in (2, 3, 5):
    m, f = RoundRobinModel(n, False), FairnessMonitor(n, False)
    full = (1 << n) - 1
    for _ in range(4 * n):
      g = m.grants(full)
      assert f.observe(full, 1, 0, g) is None
      m.tick(full, 1, 0)
    f = FairnessMonitor(n, False)
    flagged = None
    for _ in range(2 * n):
      flagged = flagged or f.observe(full, 1, 0, 1)           # always grants input 0
    assert flagged is not None and flagged[0] != 0
    # en low: no advancing cycle, so nobody is starved by definition
    f = FairnessMonitor(n, True)
    for _ in range(4 * n):
      assert f.observe(full, 0, 0, 1) is None
