"""selftest of vf.ref.fifo_model (E6): invariants of FifoSpec on seeded random offer sequences and
the same-cycle clauses of the three kinds on hand-written cycles."""
import random

from vf.ref.fifo_model import FifoSpec, NORMAL, PIPE, BYPASS


def run():
  rng = random.Random(17)
  for kind in (NORMAL, PIPE, BYPASS):
    for cap in (1, 2, 3, 5):
      s = FifoSpec(kind, cap)
      for k in range(400):
        e, d = rng.random() < 0.6, rng.random() < 0.5
        full, empty = s.full(), s.empty()
        r = s.resolve(e, k, d)
        assert r.enq_rdy == ((not full) or (kind == PIPE and r.deq_fire))
        assert r.deq_rdy == ((not empty) or (kind == BYPASS and r.enq_fire))
        assert r.enq_fire == (e and r.enq_rdy) and r.deq_fire == (d and r.deq_rdy)
        if kind == NORMAL:
          assert not (full and r.enq_fire) and not (empty and r.deq_fire)
        s.commit(r, k)
        assert 0 <= s.occ <= cap and s.books_balance()
        if rng.random() < 0.02:
          s.reset()
          assert s.occ == 0 and s.books_balance()
      assert s.delivered == s.accepted[:len(s.delivered)]
  # hand-written same-cycle behaviour
  p = FifoSpec(PIPE, 1)
  p.commit(p.resolve(True, "a", False), "a")
  r = p.resolve(True, "b", True)
  assert r.enq_rdy and r.deq_fire and r.deq_msg == "a"
  p.commit(r, "b")
  assert p.items == ["b"]
  assert not p.resolve(True, "c", False).enq_rdy
  b = FifoSpec(BYPASS, 1)
  r = b.resolve(True, "x", True)
  assert r.deq_rdy and r.deq_msg == "x" and r.passthrough
  b.commit(r, "x")
  assert b.items == [] and b.delivered == ["x"]
  assert not b.resolve(False, None, True).deq_rdy
  n = FifoSpec(NORMAL, 1)
  assert not n.resolve(True, 1, True).deq_rdy
