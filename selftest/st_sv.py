"""Self-tests of engine E2 (vf.sv): lexer, parser, IEEE 1800-2017 sizing/sign rules, simulation
semantics and the static analyses, on hand-written snippets with hand-computed expectations.
Several expectations are the worked examples of IEEE 1800-2017 itself (11.4.3.1, 11.6.1, 11.6.2).
run() raises AssertionError on the first failure."""
import os, sys

HERE = os.path.dirname(os.path.abspath(__file__))
if os.path.dirname(HERE) not in sys.path:
  sys.path.insert(0, os.path.dirname(HERE))

from vf.sv import (parse_design, SVSyntaxError, SVUnsupportedError, SVElabError, TRUSTED_BASE)
from vf.sv import lexer as L


def _sim(text, top, **kw):
  d = parse_design(text)
  return d, d.simulate(top, **kw)


def _check(sim, expect, what=""):
  for k, v in expect.items():
    got = sim.get(k) if not isinstance(k, tuple) else sim.get(k[0], k[1])
    assert got == v, "%s: %s = 0x%x, expected 0x%x" % (what, k, got, v)


def _expr_mod(decls, stmts, outs):
  """module T with the given input declarations, output declarations and an always_comb body"""
  ports = ", ".join(decls + outs)
  return "module T ( %s );\n  always_comb begin\n%s\n  end\nendmodule\n" % (
    ports, "\n".join("    " + s for s in stmts))


# ------------------------------------------------------------------------------------------
# lexer
# ------------------------------------------------------------------------------------------

def t_lexer():
  t = L.tokenize("a 8'hFF 8 'd 3 '0 '1 32'sd5 16'hAB_CD 42 ; 'h1f <<< >>> ~^ ^~ ~& ** <= +: -: '{ // c\n/* x\n y */ b")
  vals = [v for k, v in zip(t.kind, t.val) if k == L.NUM]
  assert vals == [(8, False, 255, False), (8, False, 3, False), (1, False, 0, True), (1, False, 1, True),
                  (32, True, 5, False), (16, False, 0xABCD, False), (None, True, 42, False),
                  (None, False, 0x1f, False)], vals
  ops = [v for k, v in zip(t.kind, t.val) if k == L.OP]
  assert ops == [";", "<<<", ">>>", "~^", "^~", "~&", "**", "<=", "+:", "-:", "'{"], ops
  assert t.line[-2] == 3 and t.val[-2] == "b"
  # size cast tick is a separate token:  32'( x )
  t = L.tokenize("32'( x )")
  assert [(k, v) for k, v in zip(t.kind, t.val)][:3] == [(L.NUM, (None, True, 32, False)), (L.OP, "'"), (L.OP, "(")]
  # keywords of every IEEE 1800 revision are reserved, including those pymtl3's list lacks
  for w in ("logic", "global", "let", "soft", "implies", "untyped", "checker", "nexttime", "unique0"):
    t = L.tokenize(w)
    assert t.kind[0] == L.KW, w
  t = L.tokenize("global_ let1 $x" .replace("$x", ""))
  assert t.kind[0] == L.ID and t.kind[1] == L.ID
  # conditional compilation: `ifndef SYNTHESIS is kept, `ifdef FOO dropped, nesting, `else
  t = L.tokenize("`ifndef SYNTHESIS\n a\n`endif\n`ifdef FOO\n b\n`else\n c\n`endif\n`define X 1\n`ifdef X\n d `ifdef Y e `endif\n`endif")
  assert [v for k, v in zip(t.kind, t.val) if k == L.ID] == ["a", "c", "d"]
  for bad in ["8'hxx", "'x", "`FOO", "1.5", "\"s\"", "$display", "\\esc ", "/* open", "`endif", "`ifdef A\n", "8'hZZ", "4'b12", "0'd1", "@@@ §"]:
    try:
      L.tokenize(bad)
    except SVSyntaxError:
      continue
    raise AssertionError("lexer accepted %r" % bad)
  # literal that does not fit its size is truncated and reported as a warning
  t = L.tokenize("4'd17")
  assert t.val[0] == (4, False, 1, False) and t.warnings


# ------------------------------------------------------------------------------------------
# parser: what must be accepted / rejected
# ------------------------------------------------------------------------------------------

_GOOD = [
  "module m ( input logic [0:0] clk, output logic [31:0] out [0:4], input S x ); endmodule",
  "module m (); endmodule",
  "module m; endmodule",
  "module m ( input logic [3:0] a, output logic [3:0] y ); assign y = {a[1:0], a[3:2]}[2:1] ; endmodule",
  "module m ( input logic [3:0] a, output logic [3:0] y ); assign y = { 2 { a[1:0] } }; endmodule",
  "module m ( input logic [3:0] a, output logic [3:0] y ); assign y = ~ -a; endmodule",
  "module m ( input logic [3:0] a, output logic [3:0] y ); always_comb begin : blk if ( a[0] ) y = 4'd1; else if ( a[1] ) y = 4'd2; else begin y = 4'd3; end end endmodule",
  "module m ( input logic [3:0] a, output logic [3:0] y ); always_comb begin for ( int unsigned i = 1'd0; i < 3'd4; i += 1'd1 ) y[2'(i)] = a[2'(i)]; end endmodule",
  "module m ( input logic [3:0] a, output logic [3:0] y ); integer i; always_comb begin for ( i = 0; i < 4; i = i + 1 ) begin y[i] = a[i]; end end endmodule",
  "module m ( input logic [3:0] a, output logic [3:0] y ); localparam logic [5:0] c [0:1] = '{ 6'd1, 6'd2 }; assign y = 4'( c[1] ) ; ; endmodule : m",
  "module m ( input wire [3:0] a, output reg [3:0] y ); wire [3:0] w; reg r; assign w = a, y = w; endmodule",
  "module m ( input logic [0:0] clk ); always_ff @(posedge clk) begin : f end endmodule",
]

_BAD = [
  # a select may follow an identifier or a concatenation only
  ("module m ( input logic [3:0] a, input logic [3:0] b, output logic [0:0] y ); assign y = (a+b)[3]; endmodule", "select"),
  ("module m ( input logic [3:0] a, output logic [0:0] y ); assign y = (a)[3]; endmodule", "select"),
  ("module m ( input logic [3:0] a, output logic [0:0] y ); assign y = 4'(a)[0]; endmodule", "select"),
  ("module m ( input logic [3:0] a, output logic [0:0] y ); assign y = 4'd3[0]; endmodule", "select"),
  ("module m ( input logic [7:0] a, output logic [0:0] y ); assign y = a[3:0][1]; endmodule", "part-select"),
  ("module m ( input logic [7:0] a, output logic [0:0] y ); assign y = a[0 +: 4][1]; endmodule", "part-select"),
  ("module m ( input logic [3:0] a, output logic [0:0] y ); assign y = {a,a}[3:0][0]; endmodule", "one select"),
  ("module m ( input logic [3:0] a, output logic [0:0] y ); assign y = a[3:0].f; endmodule", "part-select"),
  # structure
  ("module m ( input logic a, output logic y ); always_comb begin y = a; endmodule", "end"),
  ("module m ( input logic a, output logic y ); always_comb begin y = a; end end endmodule", "unexpected"),
  ("module m ( input logic a, output logic y ); assign y = a endmodule", None),
  ("module m ( input logic a, output logic y ) assign y = a; endmodule", None),
  ("module m ( input logic a, output logic y ); always_comb begin y = a end endmodule", "';'"),
  ("module m ( input logic a, output logic y ); assign y = ; endmodule", "expression"),
  ("module m ( input logic a, output logic y ); assign y = a +; endmodule", "expression"),
  ("module m ( input logic a, output logic y ); assign y = (a; endmodule", None),
  ("module m ( input logic a, output logic y ); assign y = {a; endmodule", None),
  ("module m ( input logic a, output logic y ); assign y = {}; endmodule", "empty"),
  ("module m ( input logic a, output logic y ); assign y = a ? a; endmodule", "':'"),
  ("module m ( input logic a, output logic y ); assign y = 1'd-1; endmodule", None),
  ("module m ( input logic a, output logic y ); assign y = 2'(-1)'; endmodule", None),
  ("module m ( input logic a, output logic y ); assign y = a b; endmodule", None),
  ("module m ( input logic a, output logic y ); assign = a; endmodule", None),
  ("module m ( input logic a, output logic y ); always_comb begin (y) = a; end endmodule", None),
  ("module m ( input logic a, output logic y ); always_comb begin y == a; end endmodule", None),
  ("module m ( input logic a, output logic y ); always_comb if a y = 1'd1; endmodule", None),
  ("module m ( input logic a, output logic y ); always_comb begin : b y = a; end : c endmodule", "label"),
  ("module m ( input logic a, output logic y ); endmodule : k", "label"),
  ("module m ( input logic a, output logic y ); always_ff begin y <= a; end endmodule", "'@'"),
  ("module m ( input logic a, output logic y ); foo bar; endmodule", "unknown type"),
  ("module m ( input logic a, output logic y ); y = a; endmodule", None),
  ("module m ( input logic [3] a ); endmodule", None),
  ("module m ( input logic a, ); endmodule", None),
  ("module m ( input logic a ); module n; endmodule endmodule", None),
  ("module m ( input logic a ); ", "endmodule"),
  ("typedef struct packed { } S; ", "empty"),
  ("typedef struct packed { logic [3:0] a } S;", None),
  ("typedef struct packed { logic [3:0] a; } ;", None),
  ("endmodule", None),
  ("assign a = b;", None),
  # reserved words of any IEEE 1800 revision cannot be identifiers
  ("module m ( input logic [3:0] buf ); endmodule", "reserved"),
  ("module m ( input logic [3:0] global ); endmodule", "reserved"),
  ("module m ( input logic a, output logic y ); logic let; endmodule", "reserved"),
  ("module m ( input logic a, output logic y ); always_comb begin : do y = a; end endmodule", "reserved"),
  ("module m ( input logic a, output logic y ); assign y = a & begin; endmodule", None),
  ("module logic ( input logic a ); endmodule", None),
]

_UNSUPPORTED = [
  "module m ( input logic a, output logic y ); assign y = a === 1'b1; endmodule",
  "module m ( input logic a, output logic y ); always @(*) y = a; endmodule",
  "module m ( input logic a, output logic y ); always_comb case (a) 1'b0: y = 1'b1; endcase endmodule",
  "module m ( input logic a, output logic y ); assign y = 1'bx; endmodule",
  "module m #( parameter W = 1 ) ( input logic a ); endmodule",
  "module m ( input logic a, output logic y ); assign {y} = a; endmodule",
  "module m ( input logic a, output logic y ); assign y = $signed(a); endmodule",
  "module m ( input logic a, output logic y ); assign y = foo(a); endmodule",
  "module m ( input logic a, output logic y ); initial y = a; endmodule",
  "module m ( inout logic a ); endmodule",
  "module m ( input logic a, output logic y ); logic w = a; endmodule",
  "module m ( input logic a, output logic y ); n u ( a, y ); endmodule",
  "module m ( input logic a, output logic y ); always_ff @(negedge a) y <= a; endmodule",
  "module m ( input logic a, output logic y ); always_comb begin logic t; y = a; end endmodule",
  "typedef enum { A, B } e_t;",
  "`include \"x.v\"",
]


def t_parser():
  for s in _GOOD:
    txt = "typedef struct packed { logic [3:0] f; } S;\n" + s
    try:
      parse_design(txt)
    except SVSyntaxError as e:
      raise AssertionError("parser rejected legal text %r: %s" % (s, e))
  for s, frag in _BAD:
    try:
      parse_design(s)
    except SVUnsupportedError as e:
      raise AssertionError("text %r should be a plain syntax error, got unsupported: %s" % (s, e))
    except SVSyntaxError as e:
      if frag is not None:
        assert frag in str(e), "error for %r does not mention %r: %s" % (s, frag, e)
      assert e.line >= 1
      continue
    raise AssertionError("parser accepted illegal text %r" % s)
  for s in _UNSUPPORTED:
    try:
      parse_design(s)
    except SVUnsupportedError:
      continue
    except SVSyntaxError as e:
      raise AssertionError("%r should be SVUnsupportedError, got %s" % (s, e))
    raise AssertionError("parser accepted unsupported text %r" % s)
  # error line numbers
  try:
    parse_design("module m ( input logic a,\n output logic y );\n\n assign y = (a)[0];\nendmodule\n")
  except SVSyntaxError as e:
    assert e.line == 4, e.line
  # public module view
  txt = ("typedef struct packed { logic [3:0] f; logic [11:0] g; } S;\n"
         "module c ( input logic [0:0] clk ); endmodule\n"
         "module m ( input  logic [0:0] clk , output logic [31:0] out [0:4][0:1], input S x );\n"
         "  logic [0:0] u__clk;\n  c u ( .clk( u__clk ) );\n  assign u__clk = clk;\nendmodule\n")
  d = parse_design(txt)
  m = d.modules["m"]
  assert m.ports == [("clk", "input", 1, (), None), ("out", "output", 32, (5, 2), None),
                     ("x", "input", 16, (), "S")], m.ports
  assert m.instances == [("c", "u")]
  a, b = m.text_span
  assert txt[a:b].startswith("module m") and txt[a:b].endswith("endmodule")
  assert d.modules["c"].text.startswith("module c")
  # precedence and associativity (IEEE 1800-2017 Table 11-2), checked by evaluation
  txt = _expr_mod(["input logic [7:0] a", "input logic [7:0] b", "input logic [7:0] c", "input logic [7:0] d"],
    ["y0 = a | b & c;", "y1 = a + b << 1;", "y2 = a == b & c;", "y3 = a ? b : c ? d : a;",
     "y4 = -a ** 2;", "y5 = a < b == c;", "y6 = a & b ^ c | d;", "y7 = a || b && c;",
     "y8 = a - b - c;", "y9 = a << 1 + 1;", "y10 = ~a & b;", "y11 = a * b + c * d;", "y12 = !a == b;",
     "y13 = a ^ b ~^ c;", "y14 = a % b * c;", "y15 = a > b > c;"],
    ["output logic [7:0] y%d" % i for i in range(16)])
  d, s = _sim(txt, "T")
  A, B, C, D = 0x0C, 0x0A, 0x06, 0x01
  s.set("a", A); s.set("b", B); s.set("c", C); s.set("d", D); s.eval()
  exp = {"y0": A | (B & C), "y1": ((A + B) << 1) & 255, "y2": (1 if A == B else 0) & C, "y3": B,
         "y4": (((-A) & 255) ** 2) & 255, "y5": 1 if (1 if A < B else 0) == C else 0,
         "y6": ((A & B) ^ C) | D, "y7": 1, "y8": (A - B - C) & 255, "y9": (A << 2) & 255,
         "y10": (~A & 255) & B, "y11": (A * B + C * D) & 255, "y12": 1 if (0 if A else 1) == B else 0,
         "y13": ((A ^ B) ^ C) ^ 255, "y14": ((A % B) * C) & 255, "y15": 1 if (1 if A > B else 0) > C else 0}
  _check(s, exp, "precedence")
  s.set("a", 0); s.set("b", 5); s.set("c", 0); s.set("d", 9); s.eval()
  _check(s, {"y3": 0, "y7": 0}, "precedence2")    # 0 ? b : (0 ? d : a) = a = 0
  s.set("c", 1); s.eval()
  _check(s, {"y3": 9, "y7": 1}, "precedence3")


# ------------------------------------------------------------------------------------------
# sizing and signedness (IEEE 1800-2017 11.6 - 11.8)
# ------------------------------------------------------------------------------------------

def t_lrm_examples():
  # 11.6.1: logic [15:0] a, b, sumA; logic [16:0] sumB;
  txt = _expr_mod(["input logic [15:0] a", "input logic [15:0] b"],
                  ["sumA = a + b;", "sumB = a + b;", "ans1 = (a + b) >> 1;", "ans2 = (a + b + 0) >> 1;"],
                  ["output logic [15:0] sumA", "output logic [16:0] sumB", "output logic [15:0] ans1",
                   "output logic [15:0] ans2"])
  d, s = _sim(txt, "T")
  s.set("a", 0xFFFF); s.set("b", 1); s.eval()
  _check(s, {"sumA": 0, "sumB": 0x10000, "ans1": 0, "ans2": 0x8000}, "11.6.1/11.6.2")
  # 11.6.2: a = 4'hF; b = 6'hA;  {a**b} is 1 (4-bit), c = a**b is 16'hac61
  txt = _expr_mod(["input logic [3:0] a", "input logic [5:0] b"], ["c1 = {a**b};", "c2 = a**b;"],
                  ["output logic [15:0] c1", "output logic [15:0] c2"])
  d, s = _sim(txt, "T")
  s.set("a", 0xF); s.set("b", 0xA); s.eval()
  _check(s, {"c1": 1, "c2": 0xAC61}, "11.6.2 power")
  # 11.4.3.1 Arithmetic expressions with unsigned and signed types
  txt = """
module T ( output logic [15:0] regA, output logic [15:0] regA2, output logic [31:0] oB,
           output logic [31:0] oC, output logic [15:0] regA3, output logic [15:0] oS,
           output logic [15:0] oS2 );
  integer intA; integer intB; integer intC;
  logic signed [15:0] regS; logic signed [15:0] regS2;
  always_comb begin
    intA = -4'd12;
    regA = intA / 3;      // expression result is -4: regA is 65532
    regA2 = -4'd12;       // regA2 is 65524
    intB = regA2 / 3;     // 21841
    intC = -4'd12 / 3;    // 1431655761
    regA3 = -12 / 3;      // 65532
    regS = -12 / 3;       // -4
    regS2 = -4'sd12 / 3;  // 1: -4'sd12 is the negative of the 4-bit quantity 1100, which is -4; -(-4) = 4
    oB = intB; oC = intC; oS = regS; oS2 = regS2;
  end
endmodule
"""
  d, s = _sim(txt, "T")
  s.eval()
  _check(s, {"regA": 65532, "regA2": 65524, "oB": 21841, "oC": 1431655761, "regA3": 65532,
             "oS": 0xFFFC, "oS2": 1}, "11.4.3.1")


def t_sizing():
  ins = ["input logic [7:0] a8", "input logic [7:0] b8", "input logic [3:0] a4", "input logic [0:0] c"]
  stmts = [
    # comparison operands are sized to the wider of the two, not to the assignment context
    "k0 = (a8 + b8) > 8'd50;", "k1 = (a8 + b8) > 9'd50;", "k2 = (a8 + b8) > 50;", "k3 = 8'hFF == 4'hF;",
    "k4 = (a8 + b8) == 9'd300;", "k5 = (a8 + b8) == 8'd44;",
    # shifts: left operand context-determined, right operand self-determined
    "s0 = a4 << 2;", "s1 = {a4 << 2};", "s2 = a4 << (4'hF + 4'h1);", "s3 = 8'h80 >> 3;", "s4 = a4 << a8[1:0];",
    "w0 = 1 << 33;", "w1 = {32'd1 << 33};", "w2 = 32'd1 << 33;",
    # arithmetic in the assignment context vs inside a concatenation
    "p0 = 4'hF + 4'h1;", "p1 = {4'hF + 4'h1};", "p2 = {2{4'hA}};", "p3 = {4'h1, {2{2'b10}}, 4'hF};",
    # conditional operator: condition self-determined, branches context-determined
    "q0 = c ? 4'hF + 4'h1 : 4'h0;", "q1 = {c ? 4'hF + 4'h1 : 4'h0};", "q2 = (4'hF + 4'h1) ? 8'd1 : 8'd2;",
    "q3 = (a8 + b8) ? 8'd1 : 8'd2;",
    # unary operators in a wider context
    "u0 = -a4;", "u1 = {-a4};", "u2 = ~a4;", "u3 = {~a4};", "u4 = ~a4 + 16'd0;", "u5 = !a4;", "u6 = +a4;",
    # unbased unsized literals fill the context
    "f0 = '1;", "f1 = a8 & '1;", "f2 = '0;", "f3 = a8 | '1;",
    # reductions and logical operators: 1-bit, operands self-determined
    "r0 = &a4;", "r1 = |a4;", "r2 = ^a4;", "r3 = ~&a4;", "r4 = ~|a4;", "r5 = ~^a4;", "r6 = ^(a4 + 4'd8);",
    "r7 = &(4'hF + 4'h0);", "r8 = |(4'h8 + 4'h8);",
    "l0 = a4 && 4'h0;", "l1 = a4 || 4'h0;", "l2 = (4'h8 + 4'h8) || 1'b0;", "l3 = !(4'h8 + 4'h8);",
    # division / modulo
    "d0 = a8 / 8'd7;", "d1 = a8 % 8'd7;", "d2 = a8 / 8'd0;", "d3 = a8 % 8'd0;",
    # multiplication keeps the context width
    "m0 = a8 * b8;", "m1 = {a8 * b8};",
    # bitwise xnor
    "x0 = a4 ~^ 4'h3;", "x1 = a4 ^~ 4'h3;",
  ]
  outs = (["output logic [0:0] k%d" % i for i in range(6)] + ["output logic [7:0] s%d" % i for i in range(5)]
          + ["output logic [63:0] w%d" % i for i in range(3)] + ["output logic [15:0] p%d" % i for i in range(4)]
          + ["output logic [7:0] q%d" % i for i in range(4)] + ["output logic [15:0] u%d" % i for i in range(7)]
          + ["output logic [15:0] f%d" % i for i in range(4)] + ["output logic [3:0] r%d" % i for i in range(9)]
          + ["output logic [3:0] l%d" % i for i in range(4)] + ["output logic [7:0] d%d" % i for i in range(4)]
          + ["output logic [15:0] m%d" % i for i in range(2)] + ["output logic [7:0] x%d" % i for i in range(2)])
  d, s = _sim(_expr_mod(ins, stmts, outs), "T")
  s.set("a8", 200); s.set("b8", 100); s.set("a4", 0b1011); s.set("c", 1); s.eval()
  _check(s, {
    "k0": 0, "k1": 1, "k2": 1, "k3": 0, "k4": 1, "k5": 1,
    "s0": 0x2C, "s1": 0x0C, "s2": 0x0B, "s3": 0x10, "s4": 0x0B,      # a8[1:0] == 0
    "w0": 1 << 33, "w1": 0, "w2": 1 << 33,
    "p0": 16, "p1": 0, "p2": 0xAA, "p3": 0x1AF,
    "q0": 16, "q1": 0, "q2": 2, "q3": 1,
    "u0": 0xFFF5, "u1": 0x0005, "u2": 0xFFF4, "u3": 0x0004, "u4": 0xFFF4, "u5": 0, "u6": 0x000B,
    "f0": 0xFFFF, "f1": 200, "f2": 0, "f3": 0xFFFF,
    "r0": 0, "r1": 1, "r2": 1, "r3": 1, "r4": 0, "r5": 0, "r6": 0, "r7": 1, "r8": 0,
    "l0": 0, "l1": 1, "l2": 0, "l3": 1,
    "d0": 28, "d1": 4, "d2": 0, "d3": 0,
    "m0": 20000, "m1": 20000 & 255,
    "x0": (0b1011 ^ 0b0011) ^ 0xFF, "x1": (0b1011 ^ 0b0011) ^ 0xFF,   # xnor in the 8-bit context
  }, "sizing")
  assert s.div_by_zero, "division by zero must be recorded"
  s.set("a8", 0x93); s.eval()
  _check(s, {"s4": (0b1011 << 3) & 255}, "dynamic shift amount")


def t_signed():
  txt = """
module T ( input logic [7:0] a8, output logic [0:0] y1, output logic [0:0] y2, output logic [0:0] y3,
           output logic [0:0] y4, output logic [31:0] s1, output logic [31:0] s2, output logic [31:0] s3,
           output logic [31:0] s4, output logic [63:0] s5, output logic [63:0] s6,
           output logic [15:0] e0, output logic [15:0] e1, output logic [15:0] e2, output logic [15:0] e3,
           output logic [15:0] e4, output logic [15:0] e5, output logic [31:0] dv, output logic [31:0] md,
           output logic [31:0] dv2, output logic [15:0] t0, output logic [15:0] t1, output logic [63:0] x0,
           output logic [63:0] x1, output logic [15:0] sv, output logic [0:0] y5, output logic [0:0] y6 );
  integer i; integer j; int k; int unsigned ku;
  logic signed [7:0] sb;
  always_comb begin
    i = -1; j = -8; k = -7; ku = -7; sb = 8'h80;
    y1 = (i < 0);               // signed comparison
    y2 = (i < 8'd0);            // one unsigned operand: unsigned comparison of 32'hFFFFFFFF
    y3 = (i == 32'hFFFFFFFF);
    y4 = (sb < 8'sd0);          // both signed: -128 < 0
    y5 = (sb < 8'd0);           // unsigned
    y6 = (sb < 1);              // signed, extended to 32 bits
    s1 = j >>> 1;               // arithmetic: -4
    s2 = j >> 1;                // logical
    s3 = (j >>> 1) + 32'd0;     // an unsigned operand makes the whole expression unsigned: logical
    s4 = j <<< 1;
    s5 = j >>> 1;               // sign-extended to 64 bits, then shifted
    s6 = j >> 1;                // sign-extended to 64 bits first, then logical shift
    e0 = 8'shFF;                // sized signed literal sign-extends
    e1 = 8'hFF;
    e2 = 8'shFF + 8'h00;        // unsigned: zero-extended
    e3 = -8'sd1;
    e4 = sb;                    // signed variable sign-extends on assignment
    e5 = sb + 8'd0;             // mixed: unsigned
    dv = k / 2;                 // truncates towards zero: -3
    md = k % 2;                 // sign of the first operand: -1
    dv2 = ku / 2;               // int unsigned: 32'hFFFFFFF9 / 2
    t0 = a8[0] ? i : 8'd1;      // conditional with one unsigned branch is unsigned; i truncated
    t1 = a8[0] ? sb : 8'sd1;    // both signed: sign-extends
    x0 = i;                     // 64-bit sign extension of an integer
    x1 = i + 64'd0;             // unsigned: zero-extended
    sv = sb[7:0];               // a part-select is unsigned even if it covers the whole vector
  end
endmodule
"""
  d, s = _sim(txt, "T")
  s.set("a8", 1); s.eval()
  _check(s, {"y1": 1, "y2": 0, "y3": 1, "y4": 1, "y5": 0, "y6": 1,
             "s1": 0xFFFFFFFC, "s2": 0x7FFFFFFC, "s3": 0x7FFFFFFC, "s4": 0xFFFFFFF0,
             "s5": 0xFFFFFFFFFFFFFFFC, "s6": 0x7FFFFFFFFFFFFFFC,
             "e0": 0xFFFF, "e1": 0x00FF, "e2": 0x00FF, "e3": 0xFFFF, "e4": 0xFF80, "e5": 0x0080,
             "dv": (-3) & 0xFFFFFFFF, "md": (-1) & 0xFFFFFFFF, "dv2": 0xFFFFFFF9 // 2,
             "t0": 0xFFFF, "t1": 0xFF80, "x0": (1 << 64) - 1, "x1": 0xFFFFFFFF, "sv": 0x0080}, "signed")


def t_casts():
  txt = """
module T ( input logic [7:0] a8, input logic [7:0] b8, output logic [15:0] y1, output logic [15:0] y2,
           output logic [7:0] y3, output logic [15:0] y4, output logic [15:0] y5, output logic [15:0] y6,
           output logic [15:0] y7, output logic [7:0] y8, output logic [7:0] y9, output logic [15:0] y10 );
  integer i;
  logic [7:0] arr [0:1];
  always_comb begin
    i = -1;
    arr[0] = 8'h11; arr[1] = 8'h22;
    y1 = 8'(a8 + b8);      // 8-bit: the carry is lost
    y2 = 12'(a8 + b8);     // as if assigned to a 12-bit variable (6.24.1): 300; operand self-determined: 44
    y3 = 4'(a8);           // truncation
    y4 = 8'(i);            // signedness passes through: sign-extended by the assignment
    y5 = 8'(a8);           // unsigned operand: zero-extended
    y6 = 4'(i) + 16'd0;    // signed 4-bit value in an unsigned context: zero-extended
    y7 = 4'(i) + 1;        // all signed: -1 + 1
    y8 = arr[1'(i)];       // index: unsigned magnitude (tool reading) -> element 1; strict LRM: -1, out of range
    y9 = 8'( 32'd511 );
    y10 = 16'( a8 );
  end
endmodule
"""
  d, s = _sim(txt, "T")
  s.set("a8", 200); s.set("b8", 100); s.eval()
  _check(s, {"y1": 44, "y2": 300, "y3": 8, "y4": 0xFFFF, "y5": 200, "y6": 0x000F, "y7": 0, "y8": 0x22,
             "y9": 0xFF, "y10": 200}, "casts")
  assert not s.oob_reads
  s2 = d.simulate("T", strict_lrm_index_sign=True)
  s2.set("a8", 200); s2.set("b8", 100); s2.eval()
  _check(s2, {"y1": 44, "y2": 300, "y8": 0}, "casts strict index")
  assert "arr" in s2.oob_reads
  s3 = d.simulate("T", cast_operand_self_determined=True)
  s3.set("a8", 200); s3.set("b8", 100); s3.eval()
  _check(s3, {"y1": 44, "y2": 44, "y4": 0xFFFF, "y6": 0x000F, "y7": 0, "y8": 0x22}, "casts self-determined")


def t_selects():
  txt = """
typedef struct packed { logic [7:0] x; } Inner;
typedef struct packed { logic [3:0] a; logic [1:0][7:0] b; Inner c; } S;
module T ( input logic [15:0] a16, input logic [3:0] i4, input S s_in,
           output logic [3:0] p0, output logic [7:0] p1, output logic [3:0] p2, output logic [3:0] p3,
           output logic [15:0] w0, output logic [15:0] w1, output logic [0:0] b0, output logic [3:0] p4,
           output logic [3:0] oa, output logic [7:0] ob1, output logic [7:0] ob0, output logic [7:0] ocx,
           output S s_out, output logic [0:0] bit5, output logic [7:0] pk, output logic [7:0] c0,
           output logic [1:0] c1, output logic [7:2] off, output logic [3:0] offsel );
  S w;
  logic [1:0][3:0] p;
  always_comb begin
    p0 = a16[7:4];
    p1 = a16[4 +: 8];
    p2 = a16[11 -: 4];
    p3 = a16[i4 +: 4];
    p4 = a16[i4 -: 4];
    b0 = a16[i4];
    w0 = 16'd0;
    w0[11:4] = 8'hFF;
    w1 = 16'hFFFF;
    w1[i4 +: 4] = 4'h0;
    w1[0] = 1'b0;
    w = s_in;
    w.b[1'd0] = 8'h55;
    w.c.x[3:0] = 4'hE;
    oa = s_in.a; ob1 = s_in.b[1]; ob0 = s_in.b[0]; ocx = s_in.c.x; s_out = w; bit5 = s_in.b[1][5];
    p[1] = 4'hA; p[0] = 4'h0; p[0][2] = 1'b1;
    pk = p;
    c0 = {a16[3:0], a16[15:12]};
    c1 = {a16[3:0], a16[15:12]}[5:4];
    off = 6'b101101;              // vector declared [7:2]
    offsel = off[5:2];
  end
endmodule
"""
  d, s = _sim(txt, "T")
  s.set("a16", 0xABCD); s.set("i4", 8); s.set("s_in", 0x1223344); s.eval()
  _check(s, {"p0": 0xC, "p1": 0xBC, "p2": 0xB, "p3": 0xB, "p4": 0xE, "b0": 1, "w0": 0x0FF0, "w1": 0xF0FE,
             "oa": 1, "ob1": 0x22, "ob0": 0x33, "ocx": 0x44, "s_out": 0x122554E, "bit5": 1, "pk": 0xA4,
             "c0": 0xDA, "c1": 0x1, "off": 0b101101, "offsel": 0b1101}, "selects")
  assert d.modules["T"].ports[2] == ("s_in", "input", 28, (), "S")
  # partially out-of-range dynamic part-selects: in-range bits only
  s.set("i4", 14); s.eval()
  _check(s, {"p3": 0x2, "w1": 0x3FFE}, "partial oob")   # a16[17:14] -> 00 + bits 15:14 = 10
  assert "a16" in s.oob_reads and "w1" in s.oob_writes
  # constant out-of-range selects are elaboration errors
  for bad in ["assign y = a[8];", "assign y = a[8:1];", "assign y = a[5 +: 4];", "assign y = m[2];",
              "assign y = a.f;", "assign y = q;", "assign y = m;", "assign y[9] = 1'b0;", "assign y = a[1:2];"]:
    t = "module B ( input logic [7:0] a, output logic [7:0] y ); logic [7:0] m [0:1]; %s endmodule" % bad
    try:
      parse_design(t).simulate("B")
    except SVElabError:
      continue
    raise AssertionError("elaboration accepted %r" % bad)


def t_arrays_and_loops():
  txt = """
module T ( input logic [1:0] sel, input logic [3:0] a, output logic [7:0] o, output logic [7:0] o2,
           output logic [3:0] y, output logic [3:0] z, output logic [7:0] u12, output logic [3:0] cnt,
           output logic [7:0] lp, output logic [3:0] dn );
  localparam logic [5:0] tbl [0:2] = '{ 6'd7, 6'd9, 6'd11 };
  localparam K = 3;
  logic [7:0] m [0:3];
  logic [7:0] u [0:1][0:2];
  integer __loopvar__u_i;
  always_comb begin : fill
    for ( int unsigned i = 1'd0; i < 3'd4; i += 1'd1 )
      m[2'(i)] = 8'(i) * 8'd3;
    o = m[sel];
  end
  assign o2 = m[2'd3] + m[2'd1];
  always_comb begin : u_blk
    for ( __loopvar__u_i = 1'd0; __loopvar__u_i < 3'd4; __loopvar__u_i = __loopvar__u_i + 1'd1 )
      y[2'(__loopvar__u_i)] = a[2'd3 - 2'(__loopvar__u_i)];
  end
  always_comb begin : v
    for ( int i = 3; i >= 0; i -= 1 )
      z[i] = a[3 - i];
  end
  always_comb begin : nest
    cnt = 4'd0;
    for ( int unsigned i = 0; i < 2; i++ ) begin
      for ( int unsigned j = 0; j < 3; j++ ) begin
        u[i][j] = 8'(i * 3 + j);
        cnt = cnt + 4'd1;
      end
    end
    u12 = u[1][2];
    lp = 8'( tbl[1] ) + 8'( K );
    dn = 4'd0;
    for ( int unsigned i = 3'd4; i > 3'd1; i -= 1'd1 )
      dn = dn + 4'(i);
  end
endmodule
"""
  d, s = _sim(txt, "T")
  s.set("sel", 2); s.set("a", 0b0011); s.eval()
  _check(s, {"o": 6, "o2": 12, "y": 0xC, "z": 0xC, "u12": 5, "cnt": 6, "lp": 12, "dn": 9}, "arrays/loops")
  assert s.get("m", 3) == 9 and s.get("u", (1, 0)) == 3
  assert d.driver_problems("T") == [], d.driver_problems("T")
  assert d.structural_problems() == [], d.structural_problems()
  s.set("sel", 1); s.eval()
  _check(s, {"o": 3}, "dynamic unpacked index")
  # the Yosys-flavour loop variable is a signed integer: under the strict reading 2'(i) is -2 / -1
  s2 = d.simulate("T", strict_lrm_index_sign=True)
  s2.set("a", 0b0011); s2.eval()
  assert s2.get("y") != 0xC and s2.oob_writes
  # a loop that cannot terminate is reported, not spun forever (int unsigned i >= 0 is always true)
  t = "module B ( output logic [3:0] y ); always_comb for ( int unsigned i = 3; i >= 0; i -= 1 ) y[2'(i)] = 1'b1; endmodule"
  try:
    parse_design(t).simulate("B").eval()
    raise AssertionError("non-terminating loop not detected")
  except SVElabError:
    pass


def t_processes():
  txt = """
module T ( input logic [0:0] clk, input logic [0:0] reset, input logic [7:0] d, output logic [7:0] a,
           output logic [7:0] b, output logic [7:0] r, output logic [7:0] m0, output logic [7:0] m1,
           output logic [0:0] p, output logic [7:0] k, output logic [0:0] le, output logic [7:0] dang );
  logic [7:0] t;
  logic [7:0] mem [0:1];
  logic [0:0] ptr;
  always_ff @(posedge clk) begin : swap
    if ( reset ) begin
      a <= 8'd1; b <= 8'd2;
    end
    else begin
      a <= b; b <= a;
    end
  end
  always_ff @(posedge clk) begin : tmp
    t = d + 8'd1;
    r <= t;
    le <= d <= 8'd5;
  end
  always_ff @(posedge clk) begin : wr
    if ( reset ) ptr <= 1'd0;
    else begin
      mem[ptr] <= d;
      ptr <= ptr + 1'd1;
    end
  end
  assign m0 = mem[0]; assign m1 = mem[1]; assign p = ptr;
  always_comb begin : konst
    k = 8'd5;
  end
  always_comb begin : dangling
    dang = 8'd0;
    if ( d[0] )
      if ( d[1] ) dang = 8'd1;
      else dang = 8'd2;
  end
endmodule
"""
  d, s = _sim(txt, "T")
  s.eval()
  _check(s, {"k": 5}, "always_comb runs at time zero")
  s.set("reset", 1); s.set("d", 3); s.tick()
  _check(s, {"a": 1, "b": 2, "r": 4, "p": 0, "le": 1, "dang": 1}, "reset")
  s.set("reset", 0); s.set("d", 7); s.tick()
  _check(s, {"a": 2, "b": 1, "r": 8, "m0": 7, "m1": 0, "p": 1, "le": 0}, "tick1")
  s.set("d", 9); s.tick()
  _check(s, {"a": 1, "b": 2, "r": 10, "m0": 7, "m1": 9, "p": 0, "dang": 2}, "tick2")
  s.set("d", 2); s.eval()
  _check(s, {"dang": 0, "r": 10}, "eval does not clock")
  assert s.get("clk") == 0 and s.cycles == 3
  assert d.driver_problems("T") == [], d.driver_problems("T")


def t_hierarchy():
  txt = """
module Child ( input logic [0:0] clk, input logic [7:0] in_, output logic [7:0] out );
  logic [7:0] r;
  always_ff @(posedge clk) begin r <= in_; end
  assign out = r + 8'd1;
endmodule
module C2 ( input logic [7:0] in_ [0:1], output logic [7:0] out [0:1] );
  assign out[0] = in_[1]; assign out[1] = in_[0] + 8'd1;
endmodule
module Top ( input logic [0:0] clk, input logic [7:0] x, output logic [7:0] y, output logic [15:0] w,
             output logic [7:0] p, output logic [7:0] q );
  logic [0:0] u0__clk; logic [7:0] u0__in_; logic [7:0] u0__out;
  Child u0 ( .clk( u0__clk ), .in_( u0__in_ ), .out( u0__out ) );
  Child u1 ( .clk( clk ), .in_( x + 8'd2 ), .out( w[15:8] ) );
  logic [7:0] c__in_ [0:1]; logic [7:0] c__out [0:1];
  C2 c ( .in_( c__in_ ), .out( c__out ) );
  logic [7:0] d__in_ [0:1][0:1]; logic [7:0] d__out [0:1][0:1];
  C2 d0 ( .in_( d__in_[1] ), .out( d__out[1] ) );
  assign u0__clk = clk; assign u0__in_ = x; assign y = u0__out; assign w[7:0] = 8'hAA;
  assign c__in_[0] = x; assign c__in_[1] = y; assign p = c__out[0];
  assign d__in_[1][0] = x; assign d__in_[1][1] = c__out[1]; assign q = d__out[1][1];
endmodule
"""
  d, s = _sim(txt, "Top")
  assert d.structural_problems() == [], d.structural_problems()
  assert d.driver_problems("Top") == [], d.driver_problems("Top")
  s.set("x", 5); s.tick()
  _check(s, {"y": 6, "w": 0x08AA, "u0.r": 5, "u1.r": 7, "u1.in_": 7, "p": 6, "q": 6, "c.out": None} if False else
            {"y": 6, "w": 0x08AA, "u0.r": 5, "u1.r": 7, "u1.in_": 7, "p": 6, "q": 6}, "hierarchy")
  assert s.get("c.out", 1) == 6 and s.get("d0.in_", 1) == 6 and s.get("d__out", (1, 1)) == 6
  assert s.inputs == {"clk": (1, ()), "x": (8, ())} and s.outputs["w"] == (16, ())
  assert s.n_aliased >= 5
  assert not s.undriven_reads
  for name in ("nope", "u0.nope", "zz.r"):
    try:
      s.get(name)
      raise AssertionError("get(%r) did not fail" % name)
    except KeyError:
      pass
  for bad in [lambda: s.set("y", 1), lambda: s.set("x", 1, 0), lambda: s.get("c__in_", 2)]:
    try:
      bad()
      raise AssertionError("bad access did not fail")
    except (KeyError, IndexError):
      pass
  # elaboration errors of the hierarchy
  for t in ["module A ( input logic a ); A u ( .a( a ) ); endmodule",
            "module A ( input logic a ); B u ( .a( a ) ); endmodule",
            "module B ( input logic a ); endmodule module A ( input logic a ); B u ( .zz( a ) ); endmodule",
            "module B ( input logic a ); endmodule module A ( input logic a ); B u ( .a( a ), .a( a ) ); endmodule",
            "module B ( output logic a ); endmodule module A ( input logic [3:0] a ); B u ( .a( a + 4'd1 ) ); endmodule"]:
    try:
      parse_design(t).simulate("A")
      raise AssertionError("elaboration accepted %r" % t)
    except SVElabError:
      pass


def t_loops_and_undriven():
  for t in ["module L ( input logic [0:0] a, output logic [0:0] y ); logic [0:0] x; assign x = ~x; assign y = x ^ a; endmodule",
            "module L ( input logic [0:0] a, output logic [0:0] y ); logic [0:0] x; always_comb x = ~y; always_comb y = x ^ a ^ a; endmodule"]:
    try:
      parse_design(t).simulate("L").eval()
      raise AssertionError("combinational loop not detected in %r" % t)
    except SVElabError as e:
      assert "combinational loop" in str(e)
  # not a loop: bit 1 depends on bit 0 of the same vector; a block reading what it wrote earlier
  t = """module N ( input logic [0:0] i, output logic [1:0] a, output logic [3:0] o );
    logic [3:0] t1;
    assign a[1] = a[0]; assign a[0] = i;
    always_comb begin t1 = {3'd0, i}; t1 = t1 + 4'd1; o = t1 + t1; end
  endmodule"""
  d, s = _sim(t, "N")
  s.set("i", 1); s.eval()
  _check(s, {"a": 3, "o": 4}, "no false loop")
  s.set("i", 0); s.eval()
  _check(s, {"a": 0, "o": 2}, "no false loop 2")
  assert d.driver_problems("N") == []
  # undriven reads are recorded with their hierarchical name, and only when executed
  t = """module C ( input logic [7:0] i, output logic [7:0] o ); logic [7:0] f; assign o = i + f; endmodule
  module U ( input logic [0:0] c, output logic [7:0] y, output logic [7:0] z );
    logic [7:0] nodrv; logic [7:0] half; logic [7:0] u__i; logic [7:0] u__o;
    C u ( .i( u__i ), .o( u__o ) );
    assign half[3:0] = 4'hF;
    always_comb begin if ( c ) y = nodrv; else y = {4'd0, half[3:0]}; end
    assign z = u__o;
  endmodule"""
  d, s = _sim(t, "U")
  s.eval()
  assert s.undriven_reads == {"u.f", "u.i"}, s.undriven_reads   # u.i is an alias of the undriven u__i
  s.set("c", 1); s.eval()
  assert s.undriven_reads == {"u.f", "u.i", "nodrv"}, s.undriven_reads
  probs = d.driver_problems("U")
  assert any("nodrv" in p and "read" in p for p in probs) and any("module C" in p and "f" in p for p in probs), probs
  assert any("u__i" in p for p in probs)
  assert not any("half" in p for p in probs), probs      # half[7:4] is neither driven nor read: fine


def t_drivers():
  def probs(t, top="D"):
    return parse_design(t).driver_problems(top)
  p = probs("""module D ( input logic [7:0] a, output logic [7:0] y, output logic [7:0] z, output logic [3:0] h,
                        output logic [3:0] g );
    logic [7:0] w;
    assign y = a;
    assign y[3:0] = 4'd0;
    always_comb begin w = a; end
    assign w = 8'd1;
    always_comb begin for ( int unsigned i = 0; i < 2; i += 1 ) h[i] = a[i]; end
    always_comb begin for ( int unsigned i = 2; i < 4; i += 1 ) h[i] = a[i]; end
    always_comb begin for ( int unsigned i = 0; i < 3; i += 1 ) g[i] = a[i]; end
    always_comb begin for ( int unsigned i = 2; i < 4; i += 1 ) g[i] = a[i]; end
  endmodule""")
  assert any("multiple drivers for y[3:0]" in x for x in p), p
  assert any("multiple drivers for w[7:0]" in x for x in p), p
  assert any("no driver for output port z[7:0]" in x for x in p), p
  assert any("multiple drivers for g[2]" in x for x in p), p
  assert not any(" h" in x for x in p), p
  assert len(p) == 4, p
  p = probs("""module D ( input logic [0:0] clk, input logic [7:0] a, output logic [7:0] y );
    always_comb begin y[3:0] = a[3:0]; end
    always_ff @(posedge clk) begin y[7:4] <= a[7:4]; end
  endmodule""")
  assert len(p) == 1 and "both always_comb and always_ff" in p[0], p
  p = probs("module D ( input logic [7:0] a, output logic [7:0] y ); assign a = 8'd0; assign y = a; endmodule")
  assert len(p) == 1 and "input port 'a' is driven inside" in p[0], p
  p = probs("""module C ( input logic [7:0] i, output logic [7:0] o ); assign o = i; endmodule
  module D ( input logic [7:0] a, output logic [7:0] y );
    logic [7:0] c__i; logic [7:0] c__o;
    C c ( .i( c__i ), .o( c__o ) );
    assign c__i = a; assign c__o = 8'd1; assign y = c__o;
  endmodule""")
  assert len(p) == 1 and "multiple drivers for c__o[7:0]" in p[0] and "instance c" in p[0], p
  # an if/else counts both branches; one block is one driver however often it assigns a bit
  p = probs("""module D ( input logic [7:0] a, output logic [7:0] y );
    always_comb begin y = 8'd0; if ( a[0] ) y[3:0] = a[3:0]; else y[7:4] = a[7:4]; y[0] = 1'b1; end
  endmodule""")
  assert p == [], p
  # a signal-dependent index is a may-write of every element; reads through it are may-reads
  p = probs("""module D ( input logic [1:0] s, input logic [7:0] a, output logic [7:0] y );
    logic [7:0] m [0:3]; logic [7:0] n [0:3];
    always_comb begin m[s] = a; end
    assign m[0] = 8'd0;
    assign n[0] = a;
    assign y = n[s];
  endmodule""")
  assert any("multiple drivers for m{element 0}" in x for x in p), p
  assert any("n{element 1}" in x and "may be read" in x for x in p), p


def t_structural():
  d = parse_design("""
typedef struct packed { logic [3:0] f; logic [3:0] f; } S;
typedef struct packed { logic [3:0] g; } S;
module A ( input logic [3:0] a, output logic [3:0] y ); assign y = a; endmodule
module A ( input logic [3:0] a, output logic [3:0] y ); assign y = a; endmodule
module B ( input logic [3:0] a, output logic [3:0] y, input logic [3:0] a );
  logic [3:0] w; logic [3:0] w;
  logic [3:0] blk;
  Nope n ( .a( a ) );
  A i0 ( .a( a ), .zz( w ) );
  A y ( .a( a ), .y( w ) );
  always_comb begin : blk
    w = und + a;
  end
  assign late = a;
  logic [3:0] late;
  assign y = i0;
endmodule
""")
  p = d.structural_problems()
  want = ["type 'S' defined twice", "module 'A' defined twice", "member 'f' declared twice",
          "port 'a' redeclares port 'a'", "variable 'w' redeclares variable 'w'",
          "block 'blk' redeclares variable 'blk'", "instance 'n' of undefined module 'Nope'",
          "connects port 'zz' which module A does not have", "leaves port 'y' of module A unconnected",
          "instance 'y' redeclares port 'y'", "identifier 'und' is not declared",
          "identifier 'late' used (line 15) before its declaration (line 16)",
          "instance name 'i0' used as a variable"]
  for w in want:
    assert any(w in x for x in p), (w, p)
  # clean text has no problems; lenient mode reports reserved words instead of raising
  assert parse_design("module A ( input logic [3:0] a, output logic [3:0] y ); assign y = a; endmodule").structural_problems() == []
  t = "module A ( input logic [3:0] buf, output logic [3:0] soft ); assign soft = buf; endmodule"
  try:
    parse_design(t)
    raise AssertionError("reserved words accepted in strict mode")
  except SVSyntaxError:
    pass
  p = parse_design(t, strict=False).structural_problems()
  assert any("reserved word 'buf'" in x for x in p) and any("reserved word 'soft'" in x for x in p), p
  # struct member errors surface as structural problems too
  p = parse_design("typedef struct packed { logic [3:0] f; } S;\nmodule A ( input S a, output logic [3:0] y ); assign y = a.nope; endmodule").structural_problems()
  assert any("no member 'nope'" in x for x in p), p


def t_trusted_base():
  assert isinstance(TRUSTED_BASE, list) and len(TRUSTED_BASE) >= 10 and all(isinstance(x, str) for x in TRUSTED_BASE)


def t_mutation_sensitivity():
  """the sizing tests must notice the classic wrong implementations"""
  from vf.sv import interp
  saved = interp.Compiler.size
  def bad_size(self, e, sc):          # wrong: comparison operands not widened to the larger one
    sz = saved(self, e, sc)
    return sz
  # mutant 1: treat every expression as unsigned
  orig = interp.Compiler._compile
  def unsigned_everything(self, e, sc, W, S):
    return orig(self, e, sc, W, False)
  interp.Compiler._compile = unsigned_everything
  try:
    try:
      t_signed()
      raise RuntimeError("mutant 'everything unsigned' survived")
    except AssertionError:
      pass
  finally:
    interp.Compiler._compile = orig
  # mutant 2: assignment context ignores the width of the target
  orig2 = interp.Compiler.compile_assign_rhs
  def narrow_ctx(self, e, sc, lw):
    w, sg = self.size(e, sc)
    f = self.compile(e, sc, w, sg)
    m = (1 << lw) - 1
    return lambda: f() & m
  interp.Compiler.compile_assign_rhs = narrow_ctx
  try:
    for t in (t_lrm_examples, t_sizing):
      try:
        t()
        raise RuntimeError("mutant 'self-determined right-hand side' survived %s" % t.__name__)
      except AssertionError:
        pass
  finally:
    interp.Compiler.compile_assign_rhs = orig2


def t_fast_paths_agree():
  """the specialised select closures give the same results as the general ones"""
  from vf.sv import interp
  import random
  rng = random.Random(7)
  txt = """
typedef struct packed { logic [3:0] a; logic [1:0][7:0] b; } S;
module T ( input logic [0:0] clk, input logic [15:0] x, input logic [3:0] i, input logic [1:0] j, input S s,
           output logic [15:0] o0, output logic [15:0] o1, output logic [15:0] o2, output logic [15:0] o3,
           output logic [15:0] o4, output logic [15:0] o5, output logic [15:0] o6, output S so );
  logic [15:0] m [0:3]; logic [7:0] n [0:1][0:3]; logic [15:0] r; S sw;
  always_ff @(posedge clk) begin
    m[j] <= x; n[i[0]][j] <= x[7:0]; r[i] <= x[0]; r[15:12] <= x[7:4]; sw.b[j[0]] <= x[15:8]; sw.a <= x[3:0];
  end
  always_comb begin
    o0 = m[j]; o1 = {8'd0, n[1'd1][j]}; o2 = {15'd0, x[i]}; o3 = {12'd0, x[i +: 4]}; o4 = {8'd0, s.b[j[0]]};
    o5 = m[2'd2] + {12'd0, m[2'd1][7:4]}; o6 = {15'd0, m[j][i]}; so = sw;
  end
endmodule
"""
  d = parse_design(txt)
  a = d.simulate("T")
  orig = interp.Compiler.__init__
  def init(self, *args, **kw):
    orig(self, *args, **kw)
    self.nofast = True
  interp.Compiler.__init__ = init
  try:
    b = d.simulate("T")
  finally:
    interp.Compiler.__init__ = orig
  assert b.comp.nofast and not a.comp.nofast
  for step in range(200):
    for p, w in (("x", 16), ("i", 4), ("j", 2), ("s", 20)):
      v = rng.getrandbits(w)
      a.set(p, v); b.set(p, v)
    if step % 3 == 0:
      a.tick(); b.tick()
    else:
      a.eval(); b.eval()
    for o in ("o0", "o1", "o2", "o3", "o4", "o5", "o6", "so"):
      assert a.get(o) == b.get(o), (step, o, a.get(o), b.get(o))
  assert a.dump() == b.dump()
  assert a.oob_reads == b.oob_reads and a.oob_writes == b.oob_writes


def run():
  for t in (t_lexer, t_parser, t_lrm_examples, t_sizing, t_signed, t_casts, t_selects,
            t_arrays_and_loops, t_processes, t_hierarchy, t_loops_and_undriven, t_drivers,
            t_structural, t_trusted_base, t_fast_paths_agree, t_mutation_sensitivity):
    try:
      t()
    except AssertionError as e:
      raise AssertionError("%s: %s" % (t.__name__, e))


if __name__ == "__main__":
  run()
  print("st_sv ok")
