#!/bin/bash
# runs every check of a tier sequentially; prints one line per check
TIER=${1:-quick}; shift
IDS=${@:-C01 C02 C03 C04 C05 C06 C07 C08 C09 C10 C11 C12 C13 C14 C15 C16 C17 C18 C19 C20}
for id in $IDS; do
  s=$(date +%s)
  out=$(./check $id --tier $TIER 2>&1); rc=$?
  e=$(date +%s)
  echo "$id rc=$rc wall=$((e-s))s :: $(echo "$out" | grep -E 'tier=|VIOLATION|HARNESS' | tr '\n' '|' | cut -c1-400)"
done
