#!/bin/bash
# usage: tools_mutant.sh <ID> <tier> <sed-expr> <file-relative-to-repo> [more sed/file pairs]
# copies pymtl3 sources to a scratch dir, applies the edit, runs the check against it, removes it
set -u
ID=$1; TIER=$2; shift 2
D=$(mktemp -d /tmp/mut_XXXX)
rsync -a --exclude .git --exclude '*.v' --exclude '*.vcd' /repo/ $D/repo/
while [ $# -ge 2 ]; do
  cp $D/repo/$2 $D/before
  sed -i -E "$1" $D/repo/$2
  if cmp -s $D/before $D/repo/$2; then echo "MUTATION DID NOT APPLY: $1 $2"; rm -rf $D; exit 3; fi
  diff $D/before $D/repo/$2 | head -6
  shift 2
done
VERIF_REPO=$D/repo /verif/check $ID --tier $TIER ${EXTRA:-} | tail -5
echo "exit=${PIPESTATUS[0]}"
rm -rf $D
