#!/venv/bin/python
"""Evaluate one independently seeded defect against the checks.

  tools_seeded.py <ID> <k> [--tier quick|thorough] [--also ID,ID] [--keep]

Reads /tmp/wt_out/<ID>/<k>/{patch.diff,demo.py,meta.json} (or /verif/seeded/<ID>-<k>/ if already kept), and
  1. runs demo.py on a scratch copy of /repo (must PASS), applies the patch, runs demo.py again (must FAIL);
  2. runs the repository's test-suite on the patched copy and compares with BASELINE stable_pass;
  3. runs ./check <ID> (and --also) against the patched copy (VERIF_REPO);
  4. with --keep and (1),(2) confirmed: stores the defect under /verif/seeded/<ID>-<k>/ with the results in meta.json.
The scratch copy is removed afterwards."""
import argparse, json, os, shutil, subprocess, sys, tempfile, xml.etree.ElementTree as ET

VERIF = os.path.dirname(os.path.abspath(__file__))


def sh(cmd, **kw):
  return subprocess.run(cmd, shell=True, capture_output=True, text=True, **kw)


def main():
  ap = argparse.ArgumentParser()
  ap.add_argument("pid"); ap.add_argument("k")
  ap.add_argument("--tier", default="quick"); ap.add_argument("--also", default="")
  ap.add_argument("--keep", action="store_true"); ap.add_argument("--skip-tests", action="store_true")
  a = ap.parse_args()
  src = f"/tmp/wt_out/{a.pid}/{a.k}"
  kept = os.path.join(VERIF, "seeded", f"{a.pid}-{a.k}")
  if os.path.exists(os.path.join(kept, "patch.diff")) or not os.path.exists(os.path.join(src, "patch.diff")): src = kept
  meta = json.load(open(os.path.join(src, "meta.json"))) if os.path.exists(os.path.join(src, "meta.json")) else {}
  d = tempfile.mkdtemp(prefix="seed_")
  repo = os.path.join(d, "repo")
  res = {"property": a.pid, "k": a.k}
  try:
    sh(f"rsync -a --exclude '*.v' --exclude '*.vcd' /repo/ {repo}/")
    env = dict(os.environ); env["PYTHONPATH"] = repo
    demo = os.path.join(src, "demo.py")
    r0 = subprocess.run(["/venv/bin/python", demo], cwd=d, env=env, capture_output=True, text=True, timeout=900)
    res["demo_unchanged_exit"] = r0.returncode
    ap_ = sh(f"git -C {repo} apply {os.path.join(src, 'patch.diff')}")
    res["patch_applies"] = ap_.returncode == 0
    if ap_.returncode != 0: res["patch_error"] = ap_.stderr[-500:]
    r1 = subprocess.run(["/venv/bin/python", demo], cwd=d, env=env, capture_output=True, text=True, timeout=900)
    res["demo_patched_exit"] = r1.returncode
    res["demo_patched_tail"] = (r1.stdout + r1.stderr)[-300:]
    if not a.skip_tests:
      x = os.path.join(d, "t.xml")
      subprocess.run(f"cd {repo} && /venv/bin/python -m pytest -q -p no:cacheprovider --timeout=900 "
                     f"--continue-on-collection-errors --junitxml={x} -n 8 > {d}/t.log 2>&1", shell=True, env=env)
      base = set(json.load(open("/root/.vp/BASELINE.json"))["stable_pass"])
      passed = set()
      try:
        for tc in ET.parse(x).iter("testcase"):
          if not any(c.tag in ("failure", "error", "skipped") for c in tc):
            passed.add(f"{tc.get('classname')}::{tc.get('name')}")
        missing = base - passed
        if missing:
          # some rtlir/example tests are flaky under xdist: re-run the affected files serially
          files = sorted({m.split("::")[0].replace(".", "/") + ".py" for m in missing})
          x2 = os.path.join(d, "t2.xml")
          subprocess.run(f"cd {repo} && /venv/bin/python -m pytest -q -p no:cacheprovider --timeout=900 "
                         f"--junitxml={x2} {' '.join(files)} > {d}/t2.log 2>&1", shell=True, env=env)
          for tc in ET.parse(x2).iter("testcase"):
            if not any(c.tag in ("failure", "error", "skipped") for c in tc):
              passed.add(f"{tc.get('classname')}::{tc.get('name')}")
          missing = base - passed
        res["baseline_tests_now_failing"] = sorted(missing)[:10]
        res["tests_ok"] = not missing
      except Exception as ex:
        res["tests_ok"] = False; res["tests_error"] = str(ex)
    elif meta.get("verified", {}).get("tests_ok") is not None:
      # the test-suite result of the last full evaluation of this same patch is carried over
      res["tests_ok"] = meta["verified"]["tests_ok"]
      res["baseline_tests_now_failing"] = meta["verified"].get("baseline_tests_now_failing", [])
      res["tests_carried_over"] = True
    checks = {}
    for pid in [a.pid] + [x for x in a.also.split(",") if x]:
      env2 = dict(os.environ); env2["VERIF_REPO"] = repo
      r = subprocess.run([os.path.join(VERIF, "check"), pid, "--tier", a.tier], cwd=VERIF, env=env2,
                         capture_output=True, text=True, timeout=7200)
      sigs = [l.strip()[:300] for l in r.stdout.splitlines() if l.strip().startswith("signature=")]
      checks[pid] = {"exit": r.returncode, "signatures": sigs[:4], "summary": [l for l in r.stdout.splitlines() if " tier=" in l][-1:]}
      sh(f"rm -f {VERIF}/replays/{pid}/found_*.json")
    res["checks"] = checks
    res["confirmed"] = bool(res.get("demo_unchanged_exit") == 0 and res.get("patch_applies") and res.get("demo_patched_exit") != 0
                            and bool(res.get("tests_ok")))
    res["caught_by"] = [p for p, c in checks.items() if c["exit"] == 1]
    print(json.dumps(res, indent=1))
    if a.keep and res["confirmed"]:
      os.makedirs(kept, exist_ok=True)
      if src != kept:
        shutil.copy(os.path.join(src, "patch.diff"), kept); shutil.copy(demo, kept)
      meta.update({"breaks_property": a.pid, "verified": res})
      json.dump(meta, open(os.path.join(kept, "meta.json"), "w"), indent=1)
  finally:
    shutil.rmtree(d, ignore_errors=True)


if __name__ == "__main__":
  main()
