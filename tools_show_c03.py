import json,sys,os,tempfile
sys.path.insert(0,'/verif'); sys.path.insert(0,'/repo')
c=json.load(open(sys.argv[1]))
which=sys.argv[2] if len(sys.argv)>2 else 'verilog'
from vf.gen.rtl_render import Renderer
from vf.props import c03
print(c['signature'], c['detail'])
print(Renderer(c['case']['design']).source('x'))
os.chdir(tempfile.mkdtemp())
r=c03.translate(c['case']['design'],which)
if r[0]=='ok':
  t=r[1]
  i=t.find('module ')
  print(t[i:i+6000])
else: print(r)
print(c['case']['seq'])
