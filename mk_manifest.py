#!/venv/bin/python
"""Regenerates MANIFEST.json from the table below (run after adding a check)."""
import json, os, sys
HERE = os.path.dirname(os.path.abspath(__file__))
sys.path.append(os.path.join(HERE, ".deps"))

CHECKS = {
  # id: (category, technique, level text, level note, design_ref)
  "C04": ("exploration",
          "property-based testing (Hypothesis) + exhaustive enumeration of small widths against an exact integer oracle",
          "Every operator/constructor/assignment of Bits is compared with exact integer arithmetic mod 2^n: "
          "all operand pairs and operand kinds for n<=3 (quick) / n<=5 (thorough), and boundary-biased generated "
          "cases over n in 1..1023. Sampling, not proof, above the enumerated widths.",
          "Trusts Python int arithmetic as the reference; PythonBits is the implementation in use (no mamba).",
          "DESIGN.md 3/C04"),
  "C05": ("exploration",
          "property-based testing (Hypothesis) + exhaustive enumeration of small widths against shift/mask integer oracle",
          "Bit/slice get and set (valid and invalid bounds, steps, Bits-typed bounds, too-wide values, frame condition), "
          "concat/zext/sext/trunc/reduce_* and clog2 are compared with integer shift/mask definitions: all (lo,hi,x) for "
          "n<=5 (quick) / n<=8 (thorough), clog2 around every power of two up to 2^80, plus generated cases over n in 1..1023.",
          "Trusts Python int arithmetic; cases the statement leaves open (narrower value into a slice, extension to a narrower "
          "target) are not judged.",
          "DESIGN.md 3/C05"),
  "C06": ("exploration",
          "property-based testing (Hypothesis): generated bitstruct type shapes and values against an independent layout specification",
          "Generated struct types (nested structs, 1-3 dimensional list fields, adjacent equal widths, awkward field names, "
          "built with @bitstruct and mk_bitstruct) are checked for nbits, to_bits layout per leaf, both round trips, "
          "equality/hash agreement with the packed value, clone/deepcopy independence, and the copy semantics of @= and <<=/_flip "
          "(also from a Bits source).",
          "The layout oracle (first field MSB, list element 0 LSB) is written from the property text and shares no code with bitstructs.py.",
          "DESIGN.md 3/C06"),
  "C01": ("exploration",
          "property-based testing (Hypothesis): generated RTL designs, differential simulation of every scheduling pass and forced linear extensions against an independent dataflow reference evaluator",
          "Generated acyclic designs (hierarchy, slices, struct fields, nets, if/for/temporaries, registers) are simulated under the five "
          "pass groups, seeded SimpleSchedule shuffles and forced linear extensions of the constraint order with permuted ff orders; all "
          "signals are compared with the reference after every evaluation and tick and every block is re-run to check the fixed point.",
          "Trusts vf/ref/rtl_eval.py as the definition of the dataflow semantics (self-checked for confluence per case); schedules are "
          "sampled, exhaustive only in the sense recorded per case.",
          "DESIGN.md 3/C01"),
  "C07": ("exploration",
          "property-based testing (Hypothesis): register-heavy generated designs simulated under all/sampled permutations of the update_ff order against a pre-edge next-state reference",
          "Designs with 2-5 registers per component (Bits and struct typed), ff blocks reading each other's registers, conditional, repeated "
          "and missing assignments and registers forwarded through nets are run under all k! ff orders for k<=4 (<=6 orders in quick) and under "
          "all pass groups; every tick must equal the reference next-state function evaluated on pre-edge values.",
          "Trusts vf/ref/rtl_eval.py:tick as the atomic-update semantics.",
          "DESIGN.md 3/C07"),
  "C02": ("exploration",
          "property-based testing (Hypothesis): executed block orders recorded with sys.setprofile and judged against bit-level dependencies computed from the harness IR",
          "For generated designs with explicit U<U constraints every scheduling pass is observed during sim_eval_combinational: each block "
          "and net block runs exactly once, writers precede readers of overlapping bits (directly and through connections), no block reads "
          "a bit that is still stale in a second evaluation, explicit constraints are respected, and rings of 2-4 signal-free constraints must "
          "be rejected by every pass.",
          "Read/write sets are a static over-approximation from the IR. A second family covers CL/FL: update_once blocks calling non-blocking and blocking methods under M<M, U<M, M<U, U<U constraints and wire dependencies (self-logging blocks; HeuristicTopoPass is skipped for FL, it raises KeyError on greenlet-wrapped blocks).",
          "DESIGN.md 3/C02"),
  "C11": ("exploration",
          "property-based testing (Hypothesis): template-generated cyclic designs classified by brute force with the reference evaluator, run under every scheduler",
          "False loops (cyclic block graph, acyclic bit graph through slices/fields/nets/child components), true ring loops classified "
          "exhaustively per input (no fixed point / only fixed-point attractors / mixed) and rings containing update_once are run under "
          "DefaultPassGroup and Mamba2020 (must settle or raise UpblkCyclicError as classified; returned state must be a fixed point; false "
          "loops must equal the reference) and under Simple/HeuTopo/Unroll (must reject); a watchdog catches hangs.",
          "Loop values are at most 3 bits wide so the classification is exhaustive; wider or data-dependent loops are outside the generator.",
          "DESIGN.md 3/C11"),
  "C16": ("exploration",
          "property-based testing (Hypothesis): generated designs simulated with VCD and text-wave dumping; dump re-read by an independent VCD parser and compared with values recorded at every clock edge",
          "Every signal of every component must have a $var of the right width whose value at time 100*t equals the value recorded from the "
          "simulator before tick t (structs as packed values, signals sharing nets, constants, never-changing signals, revisited values), the "
          "pre-#0 section must hold the defaults, the clock must toggle once per cycle, and the text-wave record must hold the same values.",
          "The harness-side VCD reader (vf/ref/vcd.py) follows IEEE 1364 value-change syntax; values at the edge are read through the public signal attributes.",
          "DESIGN.md 3/C16"),
  "C08": ("exploration",
          "property-based testing (Hypothesis) with metamorphic variants: nets and writers from elaboration compared with union-find over the IR's connection statements, for permuted/side-swapped renderings of the same design",
          "For generated legal designs every rendering variant (permuted statements, swapped sides, connect vs //=, interleaved blocks) must "
          "elaborate to exactly the connected components of the statement graph with the unique externally driven member as writer, the "
          "adjacency dict must equal the statement graph, all variants must agree, and after simulation all members of a net carry one value.",
          "The driver side of each connection is known to the generator only; constants are compared by value.",
          "DESIGN.md 3/C08"),
  "C17": ("exploration",
          "model-based property testing (Hypothesis histories + exhaustive abstract transition table) against pure-Python FIFO specifications, lock-step every cycle",
          "13 queue classes (queues.py, enrdy_queues.py, stream/queues.py, cl_queues.py; capacities 1-5; Bits and struct entries) are driven "
          "with protocol-legal offer histories and compared every cycle with a FIFO spec per kind (rdy/val clauses, delivered message, count, "
          "final content); the (occupancy, pointer, enq, deq) table is completed for capacities <=4.",
          "valrdy_queues.py cannot be imported on the pinned tree (missing InValRdyIfc/OutValRdyIfc) and is not covered; one known finding "
          "(BypassQueue2RTL enq.rdy bubble) is tolerated by exact signature and the lock-step continues behind it.",
          "DESIGN.md 3/C17"),
  "C18": ("exploration",
          "model-based property testing (Hypothesis): request streams x timing configurations against a byte-array reference memory, with the processing order observed on the MagicMemoryFL instance",
          "MagicMemoryCL (1-3 ports) and stream MagicMemoryRTL (1-2 ports) under generated latencies, stall probabilities, source gaps and sink "
          "back-pressure: every request processed exactly once in per-port order, responses in order with type/opaque, data equal to the model "
          "applied in logged order, final image equal, and identical contents under two timing configurations for disjoint ports.",
          "The FL read/write/amo methods are wrapped on the instance (harness side) to observe processing order.",
          "DESIGN.md 3/C18"),
  "C19": ("exploration",
          "model-based property testing (Hypothesis histories) + exhaustive (pointer, reqs, en) table for small nreqs against an explicit rotating-priority model",
          "RoundRobinArbiter and RoundRobinArbiterEn, nreqs 2-8: grants one-hot-or-zero, subset of reqs, first requester at or after the pointer, "
          "pointer update/hold/reset compared with priority_reg.out every cycle, fairness monitor on histories; all (pointer, reqs, en) triples "
          "enumerated for nreqs<=4 (quick) / <=6 (thorough).",
          "Pointer observed through priority_reg.out (property anchor).",
          "DESIGN.md 3/C19"),
  "C09": ("exploration",
          "property-based testing (Hypothesis) with single-defect mutation of generated legal designs; expected exception class derived from a bit-level driver-set model and the port-direction table",
          "Legal generated designs must elaborate under every statement/definition order; each of 19 injected defect kinds (driver conflicts "
          "between whole/part/field/overlapping-slice writers and nets, driverless net, connection loop, six port-direction rules, five "
          "assignment-operator misuses) must raise the corresponding pymtl3 error class under every order.",
          "Where a defect necessarily coincides with another (e.g. writing a child's driven output) either corresponding class is accepted.",
          "DESIGN.md 3/C09"),
  "C14": ("exploration",
          "property-based testing (Hypothesis): generated hierarchy sources; every object's repr is evaluated back with eval and compared by identity, metadata compared with the name's structure",
          "Hierarchies with ragged nested lists of components and signals, nested/listed interfaces, method ports, struct signals with nested "
          "and list fields, and materialised field/slice/slice-of-field/list-element signals: names are unique, evaluate back to the very "
          "object, parent/host/level/top-level-signal/field-name metadata agree with the name, and a second elaboration yields the same names.",
          "Interface.inverse() is not generated (unused in the repo; it fails elaboration independently of naming).",
          "DESIGN.md 3/C14"),
  "C15": ("exploration",
          "property-based testing (Hypothesis) over histories of replace_component calls; metamorphic comparison of the mutated design with a from-scratch build of the same slot map, plus an identity-based reachability sweep",
          "Histories of 1-4 replacements (both APIs, any depth, repeated slots, check on/off) with port-compatible replacement classes carrying "
          "nets, comb/ff/update_once blocks, grandchildren, constants, U-U and WR-U constraints: after every call all name-normalised metadata "
          "equals that of a fresh build, the two simulate identically (and equal the reference when no update_once is present), and no object of a "
          "removed component or '<deleted>' name is reachable from any component's metadata containers.",
          "Two families: RTL designs from the E1 grammar (interfaces, lists of components and list positions included) and a CL family with method ports, method nets and block-less constraint owners; designs with update_once are compared mutated-vs-fresh only.",
          "DESIGN.md 3/C15"),
  "C03": ("translation_validation",
          "property-based testing (Hypothesis): differential execution of the emitted SystemVerilog by an independent IEEE-1800 subset interpreter against the PyMTL simulation (and the dataflow reference)",
          "Every generated translatable design accepted by VerilogTranslationPass is parsed under a strict subset grammar, checked for "
          "undeclared/duplicate identifiers and one driver per variable bit, and executed cycle by cycle; all output ports must equal the "
          "PyMTL simulation after each evaluation and clock edge. Rejections are counted, not judged.",
          "E2 (vf/sv) is trusted as the reading of IEEE 1800 two-state semantics on the emitted subset; calibrated on the repo's own corpus; "
          "constant-only sub-expressions are kept out of the generator (type-checker folding, see C10).",
          "DESIGN.md 3/C03"),
  "C20": ("exploration",
          "property-based differential testing (Hypothesis): generated TinyRV0 programs x timing configurations run on ProcFL, ProcCL and ProcRTL against an independent ISA interpreter; checksum FL/CL/RTL against the docstring formula",
          "Hazard-dense terminating programs over all ten TinyRV0 instructions (RAW at distance 1-3, load-use, store-load, taken/untaken "
          "branches, nested loops, csr traffic) run in the repo's TestHarness under generated source/sink delays, memory latency and stall "
          "probability; every level must deliver exactly the interpreter's proc2mngr sequence and leave the same 1 MB memory image.",
          "The interpreter and assembler (vf/ref/tinyrv0.py) are written from tinyrv0-isa.md and validated on the repo's directed tests' "
          "hand-written expectations; xcel CSRs are excluded; liveness beyond the cycle bound is inconclusive.",
          "DESIGN.md 3/C20"),
  "C12": ("translation_validation",
          "property-based testing (Hypothesis): differential execution of the emitted Yosys-flavoured Verilog by the E2 interpreter against the PyMTL simulation, driven and observed through the flattened leaf ports",
          "Accepted designs must have exactly the flattened leaf ports of the PyMTL ports, parse, declare identifiers once, have one driver "
          "per variable bit and agree with PyMTL on every output leaf (slice of the packed value) each cycle. A known structural flaw of the "
          "flattening (struct-typed outputs/wires/child inputs) is tolerated by exact signature; a second phase with struct types restricted "
          "to top-level inputs keeps searching behind it.",
          "E2 trusted as in C03; flattened naming convention '__' per path segment/index.",
          "DESIGN.md 3/C12"),
  "C13": ("exploration",
          "property-based testing (Hypothesis): byte-level comparison of translations across fresh subprocesses with different hash seeds, and behavioural/structural alias detection on generated parametrised hierarchies executed by E2",
          "Batches of generated designs are translated by both backends under PYTHONHASHSEED 0, 1 and a drawn value plus twice in-process "
          "(SHA-256 of the emitted files must coincide); naming-focused hierarchies (parameter kinds whose str() coincide, long lists, "
          "factory-made classes sharing __name__) must yield legal, once-defined modules and every instance must behave like the module "
          "definition it shares (E2 execution vs PyMTL).",
          "Two known findings (factory classes and parameter values sharing a module name) are tolerated by exact signature.",
          "DESIGN.md 3/C13"),
  "C10": ("exploration",
          "property-based testing (Hypothesis): sloppy-width update blocks; per-AST-node probes compare the RTLIR type checker's static widths with run-time widths on the simulator",
          "Blocks with independently perturbed operand widths, literals of every size, casts, shifts, temporaries and loop variables go through "
          "BehavioralRTLIRGenPass + TypeCheckPass; for accepted blocks every expression node is probed during execution: Bits values must "
          "have the static width, int values must fit it, and no bitwidth/truncation error may be raised (unless the block has an exempt "
          "cast/shift). Rejections are counted.",
          "Negative int values and the exclusive stop bound of slices are left open; one known finding (constant folding drops explicit widths).",
          "DESIGN.md 3/C10"),
}

NOT_YET = {}

def main():
  props = [json.loads(l) for l in open(os.path.join(HERE, "properties.jsonl"))]
  checks = []
  na = []
  for p in props:
    pid = p["id"]
    if pid in CHECKS and os.path.exists(os.path.join(HERE, "vf", "props", pid.lower() + ".py")):
      cat, tech, text, note, ref = CHECKS[pid]
      checks.append({
        "property_id": pid,
        "quick_cmd": f"./check {pid} --tier quick",
        "thorough_cmd": f"./check {pid} --tier thorough",
        "evidence_file": f"evidence/{pid}.json",
        "replay_cmd_template": f"./check {pid} --replay {{path}}",
        "engine": "vf",
        "level_claimed": {"category": cat, "text": text, "design_ref": ref},
        "level_note": note,
        "technique": tech,
      })
    else:
      na.append({"property_id": pid,
                 "reason": NOT_YET.get(pid, "check not built yet in this session (planned: see DESIGN.md section 3); "
                                            "not a limit of the technique")})
  man = {
    "version": 1,
    "setup_cmd": "/venv/bin/python -c 'import hypothesis' 2>/dev/null || /venv/bin/pip install --no-index --find-links /opt/veriftools/wheels hypothesis; "
                 "test -d /verif/.deps/jsonschema || /venv/bin/pip install -q --no-index --find-links /opt/veriftools/wheels --target /verif/.deps jsonschema; "
                 "/venv/bin/python /verif/selftest/run.py",
    "hooks": {
      "guard": "PYMTL3_VERIF",
      "enable": "no source hooks are needed: checks import pymtl3 from /repo's working tree (or $VERIF_REPO) in fresh processes and observe through public APIs, sys.setprofile and harness-side wrappers",
      "baseline_off_cmd": "cd /repo && /venv/bin/python -m pytest -ra -q -p no:cacheprovider --timeout=900 --continue-on-collection-errors",
      "source_commits": [],
      "add_only": True,
    },
    "engines": [
      {"name": "vf", "path": "vf/", "serves_properties": [c["property_id"] for c in checks],
       "kind_free_text": "Hypothesis-driven generators + independent reference oracles, 16-way sharded runner (vf/runner.py)"},
    ],
    "checks": checks,
    "not_applicable": na,
    "notes": "All checks: ./check <ID> --tier quick|thorough; exit 0 held / 1 VIOLATION / 2 harness error. "
             "known_findings.json lists known and fixed findings.",
  }
  with open(os.path.join(HERE, "MANIFEST.json"), "w") as f:
    json.dump(man, f, indent=1)
  try:
    import jsonschema
    jsonschema.validate(man, json.load(open("/root/.vp/MANIFEST.schema.json")))
    print("MANIFEST valid;", len(checks), "checks,", len(na), "not claimed")
  except ImportError:
    print("jsonschema not available; not validated")

if __name__ == "__main__":
  main()
