"""C10 -- type-checker widths are the real widths; accepted code has no width errors."""
import ast
import re

from hypothesis import given, seed, strategies as st

from vf.gen import rtl_gen, rtl_sim
from vf.ref.rtl_eval import type_width
from vf.strategies import uvalue

ID = "C10"
LEVEL = "exploration"
RULE = ("case = (single-component design whose update blocks come from a deliberately sloppy expression grammar: operand "
        "widths perturbed independently, int literals of every size (near powers of two, up to 2^100, negative), explicit "
        "BitsN(...) casts, shifts, temporaries, loop variables, struct fields, if-expressions with bare-int branches as operands, comparison results as operands, temporaries re-assigned after an int literal, variable part-selects x[lo : hi+K] with equal and with different bound expressions; random input vectors). The component is "
        "elaborated and BehavioralRTLIRGenPass + BehavioralRTLIRTypeCheckPass are applied. If the checker accepts: every "
        "expression node of every block is wrapped in a probe (matched to the RTLIR node through the AST position) and the "
        "block is executed on the locked simulator: for each Bits-valued node static width == run-time nbits; for each "
        "int-valued node the value fits the static width; no bitwidth / truncation ValueError may be raised unless the "
        "block contains an explicit width-changing cast or a shift whose amount has another width. non-trivial = accepted "
        "block with a literal / loop variable / temporary that was sized by the checker, or an accepted block whose "
        "widths were perturbed; distinct by design")
ASSUMPTIONS = [
  "rejecting a block is never a violation (the property only constrains accepted blocks and blocks whose simulation raises)",
  "run-time width of a node = nbits of the value Python computes for exactly that AST node in the block's environment",
  "IndexError from a data-dependent out-of-range bit index is not a width error (counted, not judged)",
  "negative int values (unary minus on a literal) have no agreed width or operand semantics (C04 leaves them open): their static "
  "width and the run-time error 'Integer -0x.. is not a valid binop operand' are not judged",
  "the exclusive stop bound of a slice is sized like an index by the checker (x[1:32] on a 32-bit signal gives the literal 32 "
  "five bits); this convention is accepted: stop-1 must fit",
]
QUICK_S = 240
THOROUGH_S = 1200

compiled_re = re.compile('( *(@|def))')
WIDTH_ERR = re.compile(r"bitwidth|too wide|too narrow|Cannot fit|is not a valid binop operand|too big", re.I)


def collect_nodes(u, out):
  """RTLIR tree -> {(lineno, col, end_lineno, end_col): (kind, width, value)} for expression nodes"""
  from pymtl3.passes.rtlir.behavioral import BehavioralRTLIR as bir
  from pymtl3.passes.rtlir.rtype import RTLIRDataType as rdt
  if isinstance(u, bir.BaseBehavioralRTLIR):
    a = getattr(u, "ast", None)
    T = getattr(u, "Type", None)
    if a is not None and isinstance(a, ast.expr) and T is not None and not isinstance(u, bir.Base):
      try:
        dt = T.get_dtype()
        if isinstance(dt, rdt.Vector): w = dt.get_length()
        elif isinstance(dt, rdt.Bool): w = 1
        elif isinstance(dt, rdt.Struct): w = dt.get_length()
        else: w = None
      except Exception:
        w = None
      if w is not None:
        key = (a.lineno, a.col_offset, a.end_lineno, a.end_col_offset)
        # the same AST node can be visited for several RTLIR nodes (e.g. Index/Slice on one Subscript): keep the outermost
        out.setdefault(key, (type(u).__name__, w, getattr(u, "_value", None)))
    if isinstance(u, bir.Slice):
      # the stop bound of a slice is exclusive: the checker sizes it like an index, and the translators emit stop-1
      ua = getattr(u.upper, "ast", None)
      if ua is not None:
        out.setdefault("__uppers__", set()).add((ua.lineno, ua.col_offset, ua.end_lineno, ua.end_col_offset))
    for k, v in vars(u).items():
      if k in ("ast", "Type"): continue
      if isinstance(v, list):
        for x in v: collect_nodes(x, out)
      else:
        collect_nodes(v, out)


def const_only_keys(fn):
  """keys of expression nodes that mention no signal (s.*), temporary or loop variable: constant-only sub-expressions"""
  assigned = set()
  for n in ast.walk(fn):
    if isinstance(n, ast.Assign):
      for t in n.targets:
        if isinstance(t, ast.Name): assigned.add(t.id)
    elif isinstance(n, ast.For) and isinstance(n.target, ast.Name):
      assigned.add(n.target.id)
  out = set()
  for n in ast.walk(fn):
    if isinstance(n, ast.expr) and hasattr(n, "lineno"):
      names = {m.id for m in ast.walk(n) if isinstance(m, ast.Name)}
      if "s" not in names and not (names & assigned):
        out.add((n.lineno, n.col_offset, n.end_lineno, n.end_col_offset))
  return out


class Wrap(ast.NodeTransformer):
  def __init__(self, keys):
    self.keys = keys

  def visit(self, node):
    if isinstance(node, ast.expr):
      key = (node.lineno, node.col_offset, node.end_lineno, node.end_col_offset)
      store = isinstance(getattr(node, "ctx", None), (ast.Store, ast.Del))
      node = self.generic_visit(node)
      if key in self.keys and not store:
        call = ast.Call(func=ast.Name(id="__probe", ctx=ast.Load()),
                        args=[ast.Constant(value=self.keys[key]), node], keywords=[])
        return ast.copy_location(call, node)
      return node
    return self.generic_visit(node)

  def visit_Call(self, node):
    # do not wrap the callee name itself
    node.args = [self.visit(a) for a in node.args]
    return node

  def visit_AugAssign(self, node):
    node.target = self.visit_target(node.target)
    node.value = self.visit(node.value)
    return node

  def visit_target(self, t):
    # only index / slice expressions inside a store target are instrumented
    if isinstance(t, ast.Subscript):
      t.value = self.visit_target(t.value)
      t.slice = self.visit(t.slice)
    elif isinstance(t, ast.Attribute):
      t.value = self.visit_target(t.value)
    return t

  def visit_Assign(self, node):
    node.value = self.visit(node.value)
    return node

  def visit_For(self, node):
    node.iter = self.visit(node.iter)
    node.body = [self.visit(s) for s in node.body]
    return node


def has_exempt(design):
  """explicit width-changing cast, or a shift whose amount width differs (both exempted by the property)"""
  s = repr(design)
  return "'cast'" in s or "'shl'" in s or "'shr'" in s


def judge(case, stats=None):
  design = case["design"]
  s = rtl_sim.Sim(design)
  try:
    from pymtl3.passes.rtlir import BehavioralRTLIRGenPass, BehavioralRTLIRTypeCheckPass
    from pymtl3.passes.PassGroups import DefaultPassGroup
    top = s.elaborate()
    try:
      top.apply(BehavioralRTLIRGenPass(top))
      top.apply(BehavioralRTLIRTypeCheckPass(top))
    except Exception as ex:
      if stats is not None: stats["rejected"] = type(ex).__name__
      return None
    if stats is not None: stats["accepted"] = True
    ups = top.get_metadata(BehavioralRTLIRGenPass.rtlir_upblks)
    top.apply(DefaultPassGroup())
    exempt = has_exempt(design)
    nprobed = 0
    for blk in sorted(ups, key=lambda b: b.__name__):
      u = ups[blk]
      nodes = {}
      collect_nodes(u, nodes)
      uppers = nodes.pop("__uppers__", set())
      keys = {k: i for i, k in enumerate(sorted(nodes))}
      inv = {i: (k, nodes[k]) for k, i in keys.items()}
      info = top.get_update_block_info(blk)
      src = compiled_re.sub(r'\2', info[1])
      tree = ast.parse(src)
      fn = tree.body[0]
      fn.decorator_list = []
      consts = const_only_keys(fn)
      fn.body = [Wrap(keys).visit(st_) for st_ in fn.body]
      ast.fix_missing_locations(tree)
      recs = []

      def probe(i, v, recs=recs):
        recs.append((i, v)); return v
      env = dict(blk.__globals__)
      for name, cell in zip(blk.__code__.co_freevars, blk.__closure__ or ()):
        try: env[name] = cell.cell_contents
        except ValueError: pass
      env["__probe"] = probe
      exec(compile(tree, f"<c10 {blk.__name__}>", "exec"), env)
      f = env[fn.name]
      for cyc in case["seq"]:
        s.set_inputs(cyc)
        del recs[:]
        err = None
        try:
          f()
        except IndexError:
          if stats is not None: stats["index_error"] = True
        except ValueError as ex:
          err = ex
        except AssertionError as ex:
          err = ex                       # helpers assert on widths (zext narrower / trunc wider)
        for i, v in recs:
          (key, (kind, w, cval)) = inv[i]
          nprobed += 1
          if hasattr(v, "nbits"):
            if v.nbits != w:
              if (cval is not None or key in consts) and kind not in ("SizeCast", "Number", "FreeVar"):
                # a constant-only sub-expression: the checker folds it and sizes the folded value minimally,
                # dropping explicit operand widths (known finding, own signature)
                return ("folded_constant_expression_resized", f"{blk.__name__} line {key[0]} col {key[1]}: constant {kind} typed {w} bits, value {v!r} has {v.nbits}")
              return ("static_width_differs_from_runtime", f"{blk.__name__} line {key[0]} col {key[1]}: {kind} typed {w} bits, value {v!r} has {v.nbits}")
          elif isinstance(v, int) and not isinstance(v, bool):
            if key in uppers and v > 0: v = v - 1
            if v < 0:
              if stats is not None: stats["negative_int_node"] = True    # width of a negative int: left open
              continue
            fits = 0 <= v < (1 << w)
            if not fits:
              return ("int_value_does_not_fit_static_width", f"{blk.__name__} line {key[0]} col {key[1]}: {kind} typed {w} bits, value {v}")
        if err is not None:
          msg = str(err)
          if "Integer -0x" in msg:
            if stats is not None: stats["negative_operand"] = True     # negative int operand: left open (see C04)
          elif isinstance(err, AssertionError) or WIDTH_ERR.search(msg):
            if not exempt:
              return ("accepted_block_raises_width_error", f"{blk.__name__}: {type(err).__name__}: {msg[:200]}")
            if stats is not None: stats["exempt_error"] = True
          else:
            raise err
    if stats is not None: stats["probed"] = nprobed
    return None
  finally:
    s.close()


@st.composite
def cases(draw):
  sl = draw(st.sampled_from([0, 1, 1, 2, 3]))
  design = draw(rtl_gen.designs(max_depth=0, max_steps=4, ff=False, sloppy=sl, lambdas=False, wide=draw(st.integers(0, 3)) == 0))
  seq = draw(rtl_gen.input_seqs(design, ncycles=3))
  return {"design": design, "seq": seq, "sloppy": sl}


def run_shard(ctx):
  @seed(ctx.hseed())
  @ctx.settings(ctx.n(12000, 200000))
  @given(cases())
  def t(case):
    if ctx.out_of_time(): return
    ctx.count()
    stats = {}
    v = judge(case, stats)
    if stats.get("accepted"): ctx.label("accepted")
    if stats.get("rejected"): ctx.label("rejected_" + stats["rejected"])
    if stats.get("exempt_error"): ctx.label("runtime_width_error_in_exempt_block")
    if stats.get("index_error"): ctx.label("runtime_index_error")
    r = repr(case["design"])
    if v is None and stats.get("accepted") and ("'lit'" in r or "'lv'" in r or "'tmp'" in r) and stats.get("probed", 0) > 0:
      ctx.nontriv(case["design"])
    ctx.judge(case, v)
    if ctx.evaluations % 101 == 0:
      from vf.gen.rtl_render import Renderer
      ctx.sample({"source": Renderer(case["design"]).source("x")[:1000], "probed_nodes": stats.get("probed"), "accepted": bool(stats.get("accepted"))})
  ctx.run(t, "c10")


def replay(case):
  return judge(case)
