"""C16 -- waveform dumps (VCD and text-wave) replay the simulation exactly."""
import os

from hypothesis import given, seed, strategies as st

from vf.gen import rtl_gen, rtl_sim
from vf.ref import vcd as V
from vf.ref.rtl_eval import Model, type_width

ID = "C16"
LEVEL = "exploration"
RULE = ("case = (generated RTL design with hierarchy, struct signals, nets across levels, constants; input sequence that "
        "holds and revisits values); simulated with DefaultPassGroup(vcdwave=..., textwave=True); before each sim_tick the "
        "harness evaluates and records every signal's packed value (the value at that cycle's clock edge); afterwards the "
        ".vcd is parsed by an independent reader: every signal of every component has a $var of the right width whose "
        "value in force at time 100*t equals the recorded value at tick t, the section before #0 holds the type default "
        "(0), the clock var is 1 at 100*t and 0 at 100*t+50; textwave_dict[name][t] equals the same value. non-trivial = "
        "design has a net with >=2 top-level-signal members, a struct signal, a signal that returns to an earlier value "
        "and one that never changes; distinct by design+inputs")
ASSUMPTIONS = [
  "the recorded 'value at the edge' is taken after an extra sim_eval_combinational before each tick (a no-op by the "
  "fixed-point clause checked in C01)",
  "clk signals are compared with the documented toggle pattern, not with the simulator's clk value",
  "VCD names: scopes 'top' then child field names with [] -> (), signal names relative to the component",
]
QUICK_S = 240
THOROUGH_S = 1200


def mangle(n):
  return n.replace("[", "(").replace("]", ")").replace(":", "__")


def judge(case, stats=None):
  design, seq = case["design"], case["seq"]
  s = rtl_sim.Sim(design)
  fname = f"wave_{os.getpid()}_{id(s)}"
  path = fname + ".vcd"
  stage = "elaborate"
  try:
    from pymtl3.passes.PassGroups import DefaultPassGroup
    from pymtl3.passes.tracing.PrintTextWavePass import PrintTextWavePass
    s.elaborate()
    stage = "apply"
    s.top.apply(DefaultPassGroup(vcdwave=fname, textwave=True))
    s._collect_names()
    m = Model(design)
    recorded = []
    for cyc in seq:
      stage = "sim"
      s.set_inputs(cyc)
      s.eval_comb()
      recorded.append(s.snapshot())
      s.tick()
    stage = "parse"
    with open(path) as f:
      text = f.read()
    try:
      p = V.parse(text)
    except V.VCDError as ex:
      return ("vcd:malformed", str(ex))
    T = len(seq)
    # expected var table
    checked = 0
    for (ip, n) in s.names:
      full = "top" + ("." + ".".join(mangle(x) for x in ip.split(".")) if ip else "") + "." + mangle(n)
      key = (ip + "." if ip else "") + n
      w = type_width(m.sigtype[(ip, n)])
      if full not in p["vars"]:
        return ("vcd:missing_var", f"{full} not declared; have {sorted(p['vars'])[:6]}...")
      vw, code = p["vars"][full]
      if vw != w: return ("vcd:wrong_width", f"{full}: {vw} vs {w}")
      if p["init"].get(code) != 0:
        return ("vcd:wrong_initial_value", f"{full}: initial {p['init'].get(code)}")
      for t in range(T):
        got = V.value_at(p, code, 100 * t)
        if got != recorded[t][key]:
          return ("vcd:wrong_value", f"{full} at cycle {t} (time {100*t}): vcd {got}, simulator {recorded[t][key]}")
        checked += 1
    # clock
    for ip in m.insts:
      full = "top" + ("." + ".".join(mangle(x) for x in ip.split(".")) if ip else "") + ".clk"
      if full not in p["vars"]: return ("vcd:missing_var", full)
      w, code = p["vars"][full]
      for t in range(T):
        if V.value_at(p, code, 100 * t) != 1 or V.value_at(p, code, 100 * t + 50) != 0:
          return ("vcd:clock_pattern", f"{full} at cycle {t}")
    # no undeclared extra vars other than clk
    expect = {"top" + ("." + ".".join(mangle(x) for x in ip.split(".")) if ip else "") + "." + mangle(n) for ip, n in s.names}
    extra = [v for v in p["vars"] if v not in expect and not v.endswith(".clk")]
    if extra: return ("vcd:unexpected_var", str(extra[:4]))
    # text wave
    stage = "textwave"
    tw = s.top.get_metadata(PrintTextWavePass.textwave_dict)
    for (ip, n) in s.names:
      name = "s." + (ip + "." if ip else "") + n
      key = (ip + "." if ip else "") + n
      if n == "reset" and ip: continue              # only s.reset is recorded among clk/reset
      if name not in tw: return ("textwave:missing_signal", name)
      vals = tw[name]
      if len(vals) != T: return ("textwave:wrong_length", f"{name}: {len(vals)} entries for {T} ticks")
      w = type_width(m.sigtype[(ip, n)])
      for t in range(T):
        sv = vals[t]
        if not sv.startswith("0b") or len(sv) != w + 2:
          return ("textwave:bad_format", f"{name}[{t}] = {sv!r}")
        if int(sv[2:], 2) != recorded[t][key]:
          return ("textwave:wrong_value", f"{name} at cycle {t}: {sv} vs {recorded[t][key]}")
    if stats is not None:
      stats["checked"] = checked
      keys = list(recorded[0]) if recorded else []
      stats["revisit"] = any(any(recorded[a][k] == recorded[c][k] != recorded[b][k]
                                 for a in range(T) for b in range(a + 1, T) for c in range(b + 1, T)) for k in keys)
      stats["constant"] = any(all(recorded[t][k] == recorded[0][k] for t in range(T)) and recorded[0][k] != 0 for k in keys) \
                          or any(all(recorded[t][k] == 0 for t in range(T)) for k in keys)
      nets = s.top.get_all_value_nets()
      stats["shared_net"] = any(sum(1 for x in net if hasattr(x, "is_top_level_signal") and x.is_signal() and x.is_top_level_signal()) >= 2
                                and not any(repr(x).endswith((".clk", ".reset")) for x in net) for _, net in nets)
    return None
  except Exception as ex:
    import traceback
    tb = traceback.extract_tb(ex.__traceback__)
    inner = [f for f in tb if "/pymtl3/" in f.filename]
    if not inner: raise
    return (f"{stage}:exception:{type(ex).__name__}@{inner[-1].name}", f"{ex}"[:300])
  finally:
    s.close()
    try: os.remove(path)
    except OSError: pass


def big_design(n, w, salt):
  """a flat design with n wires (more signals than the 94 one-character VCD identifier codes, twice over)"""
  R = lambda sig, sl=None: {"inst": "", "sig": sig, "fld": [], "sl": sl}
  top = {"ports": [["in1", "in", ["b", w]], ["out1", "out", ["b", w]]], "wires": [], "children": [], "conns": [],
         "blocks": [], "uu": []}
  stmts = []
  for i in range(n):
    top["wires"].append([f"v{i}", ["b", w]])
    src = ["sig", R("in1")] if i % 7 == 0 else ["sig", R(f"v{i - 1}")]
    e = ["bin", "+" if (i + salt) % 3 else "^", src, ["const", w, (i * 2654435761 + salt) % (1 << w)]]
    stmts.append(["assign", R(f"v{i}"), e])
    if len(stmts) == 16 or i == n - 1:
      top["blocks"].append({"name": f"upb{len(top['blocks'])}", "kind": "comb", "stmts": stmts}); stmts = []
  top["conns"].append([R("out1"), R(f"v{n - 1}")])
  return {"classes": {"Top": top}, "top": "Top"}


@st.composite
def cases(draw):
  if draw(st.integers(0, 39)) == 0:
    design = big_design(draw(st.integers(190, 260)), draw(st.integers(6, 16)), draw(st.integers(0, 99)))
    seq = draw(rtl_gen.input_seqs(design, ncycles=3))
    return {"design": design, "seq": seq, "big": True}
  design = draw(rtl_gen.designs(max_steps=5, ifcs=draw(st.booleans()), conn_bias=draw(st.sampled_from([0, 1, 2])), struct_bias=draw(st.sampled_from([0, 1]))))
  base = draw(rtl_gen.input_seqs(design, ncycles=draw(st.integers(4, 9))))
  # revisit earlier input vectors
  seq = []
  for i, c in enumerate(base):
    if i >= 2 and draw(st.integers(0, 2)) == 0:
      seq.append(dict(seq[draw(st.integers(0, i - 1))]))
    else:
      seq.append(c)
  return {"design": design, "seq": seq}


def run_shard(ctx):
  @seed(ctx.hseed())
  @ctx.settings(ctx.n(1600, 40000))
  @given(cases())
  def t(case):
    if ctx.out_of_time(): return
    ctx.count()
    for f_ in rtl_gen.features(case["design"]): ctx.label(f_)
    stats = {}
    v = judge(case, stats)
    has_struct = '["s",' in repr(case["design"]).replace("'", '"')
    for k in ("revisit", "constant", "shared_net"):
      if stats.get(k): ctx.label(k)
    if has_struct: ctx.label("struct_signal")
    if len(case["design"]["classes"]) > 1: ctx.label("hierarchical")
    if case.get("big"): ctx.label("more_than_188_signals")
    if v is None and has_struct and stats.get("revisit") and stats.get("constant") and stats.get("shared_net"):
      ctx.nontriv([case["design"], case["seq"]])
    ctx.judge(case, v)
    if ctx.evaluations % 23 == 0:
      from vf.gen.rtl_render import Renderer
      ctx.sample({"source": Renderer(case["design"]).source("x")[:1200], "cycles": len(case["seq"]), "vars_checked": stats.get("checked")})

  ctx.run(t, "c16")


def replay(case):
  return judge(case)
