"""C14 -- hierarchical names are unique and evaluate back to their objects."""
import hashlib
import importlib.util
import itertools
import os
import re
import sys

from hypothesis import given, seed, strategies as st

from vf.gen import structs as S

ID = "C14"
LEVEL = "exploration"
RULE = ("case = generated hierarchy source: components in ragged nested lists (depth 1-3, empty rows included), interfaces (nested, in lists), caller/callee method ports, signals and ragged lists of signals of Bits/struct type (nested structs, "
        "list fields), and field / slice / slice-of-field / list-element signals materialised through update-block reads "
        "(constant and variable indices) and connections (nested slices also on struct fields); after elaborate(), over every object of "
        "get_all_object_filter plus all members of value nets: repr injective, eval(repr(o),{'s':top}) is o, "
        "get_parent_object() is eval(prefix(name)), host component = nearest component on the path, component level = "
        "component hops, top-level-signal / field-name metadata consistent with the name, a second fresh elaboration "
        "gives the same name set. non-trivial = some object name has two index groups, a field followed by an index, or "
        "a slice of a field; distinct by generated source")
ASSUMPTIONS = [
  "prefix(name): drop a trailing [lo:hi] slice, else drop the last .attr with its [i] indices",
  "names are compared as strings produced by repr(obj); evaluation uses Python's eval on the elaborated (unlocked) model",
]
QUICK_S = 240
THOROUGH_S = 1200

_uid = itertools.count()


def bits_t(n):
  return f"Bits{n}" if n < 256 else f"mk_bits({n})"


@st.composite
def ragged(draw, leaf, depth):
  """ragged nested list description: leaf or [sub, sub, ...]"""
  if depth == 0: return leaf
  n = draw(st.integers(1, 3))
  out = [draw(ragged(leaf, depth - 1 if draw(st.integers(0, 3)) else 0)) if depth > 1 else leaf for _ in range(n)]
  if depth > 1 and draw(st.integers(0, 4)) == 0:
    # a triangular array: an empty row (first or elsewhere) next to rows that hold objects
    out.insert(draw(st.sampled_from([0, 0, len(out)])), [])
  return out


def render_ragged(x, leafstr):
  if isinstance(x, list): return "[ " + ", ".join(render_ragged(y, leafstr) for y in x) + " ]"
  return leafstr


def ragged_paths(x, prefix=()):
  if isinstance(x, list):
    for i, y in enumerate(x):
      yield from ragged_paths(y, prefix + (i,))
  else:
    yield prefix


class Gen:
  def __init__(self, draw):
    self.draw = draw
    self.structs = {}
    self.struct_src = []
    self.ifc_src = []
    self.comp_src = []
    self.nifc = 0

  def tname(self, t):
    if t[0] == "b": return bits_t(t[1])
    key = repr(t)
    if key not in self.structs:
      fields = []
      for fname, ft in t[2]:
        fields.append((fname, self.tann(ft)))
      name = f"T{len(self.structs)}_{t[1]}"
      self.structs[key] = name
      self.struct_src.append(f"@bitstruct\nclass {name}:\n" + "\n".join(f"  {fn}: {ann}" for fn, ann in fields) + "\n")
    return self.structs[key]

  def tann(self, t):
    if t[0] == "l":
      e = self.tname(t[2])
      for d in reversed(t[1]): e = "[ " + ", ".join([e] * d) + " ]"
      return e
    return self.tname(t)

  def sigtype(self):
    d = self.draw
    if d(st.integers(0, 2)) == 0:
      return d(S.struct_types(max_depth=3, budget=60))
    return ["b", d(st.integers(1, 40))]

  def derived_reads(self, base, t):
    """expressions (strings) that materialise field/slice signals under `base` (a signal name string)"""
    d = self.draw
    out = []
    if t[0] == "b":
      if t[1] >= 2 and d(st.booleans()):
        lo = d(st.integers(0, t[1] - 2)); hi = d(st.integers(lo + 1, t[1]))
        out.append(f"{base}[{lo}:{hi}]")
        if d(st.booleans()): out.append(f"{base}[{d(st.integers(0, t[1] - 1))}]")
      return out
    for path, w in S.layout(t):
      if d(st.integers(0, 2)) == 0: continue
      e = base
      for p in path: e += f"[{p}]" if isinstance(p, int) else f".{p}"
      out.append(e)
      if w >= 2 and d(st.booleans()):
        lo = d(st.integers(0, w - 2)); hi = d(st.integers(lo + 1, w))
        out.append(f"{e}[{lo}:{hi}]")
    # whole sub-structs / list fields
    for fname, ft in t[2]:
      if ft[0] in ("s", "l") and d(st.booleans()): out.append(f"{base}.{fname}")
    return out

  def interface(self, depth):
    d = self.draw
    self.nifc += 1
    name = f"Ifc{self.nifc}"
    lines = [f"class {name}( Interface ):", "  def construct( s ):"]
    members = []           # (attr, ragged-shape, type or ("ifc", IfcName, submembers))
    for i in range(d(st.integers(1, 3))):
      t = self.sigtype()
      shape = d(ragged(None, d(st.sampled_from([0, 0, 1, 2]))))
      kind = d(st.sampled_from(["InPort", "OutPort"]))
      attr = f"m{i}"
      lines.append(f"    s.{attr} = {render_ragged(shape, f'{kind}( {self.tname(t)} )')}")
      members.append((attr, shape, t))
    if depth > 0 and d(st.integers(0, 2)) == 0:
      sub, subm = self.interface(depth - 1)
      shape = d(ragged(None, d(st.sampled_from([0, 1]))))
      inv = ""          # Interface.inverse() is unused in the repo and raises FieldReassignError: outside C14
      lines.append(f"    s.sub = {render_ragged(shape, f'{sub}(){inv}')}")
      members.append(("sub", shape, ("ifc", sub, subm)))
    self.ifc_src.append("\n".join(lines) + "\n")
    return name, members

  def component(self, name, pool, depth):
    d = self.draw
    L = [f"class {name}( Component ):", "  def construct( s ):"]
    mat = []                       # expressions read in the materialising block
    conns = []
    srcw = 48
    L.append(f"    s.srcw = Wire( Bits{srcw} )")
    L.append(f"    s.sel = Wire( Bits2 )")
    nsig = d(st.integers(1, 4))
    sink_id = 0
    for i in range(nsig):
      t = self.sigtype()
      shape = d(ragged(None, d(st.sampled_from([0, 0, 0, 1, 2, 3]))))
      kind = d(st.sampled_from(["InPort", "OutPort", "Wire"]))
      attr = f"{kind[0].lower()}{i}"
      L.append(f"    s.{attr} = {render_ragged(shape, f'{kind}( {self.tname(t)} )')}")
      for path in ragged_paths(shape):
        base = f"s.{attr}" + "".join(f"[{p}]" for p in path)
        if d(st.integers(0, 1)): mat.extend(self.derived_reads(base, t))
      if isinstance(shape, list) and all(not isinstance(x, list) for x in shape) and d(st.booleans()):
        mat.append(f"s.{attr}[s.sel]" if len(shape) >= 4 else f"s.{attr}[0]")
      # a connection that materialises slices on both sides
      if kind == "Wire" and t[0] == "b" and not isinstance(shape, list) and d(st.booleans()) and t[1] <= srcw:
        if t[1] >= 2 and d(st.booleans()):
          k = d(st.integers(1, t[1] - 1)); o = d(st.integers(0, srcw - t[1]))
          if d(st.booleans()):
            conns.append(f"s.{attr}[0:{k}] //= s.srcw[{o}:{o + k}]")
            if d(st.booleans()):
              # the same bits again through a nested slice, after the direct slice object exists
              sink_id += 1
              L.append(f"    s.snk{sink_id} = Wire( Bits{k} )")
              conns.append(f"s.snk{sink_id} //= s.{attr}[0:{t[1]}][0:{k}]")
          else:                                      # slice of a slice: pymtl3 normalises it to a slice of the signal
            conns.append(f"s.{attr}[0:{t[1]}][0:{k}] //= s.srcw[0:{srcw}][{o}:{o + k}]")
            if d(st.booleans()):
              # the same bits reached a second time by the direct route and by another nesting
              mat.append(f"s.{attr}[0:{k}]")
              mat.append(f"s.srcw[{o}:{o + k}]")
          conns.append(f"connect( s.srcw[{o + k}:{o + t[1]}], s.{attr}[{k}:{t[1]}] )")
        else:
          o = d(st.integers(0, srcw - t[1]))
          conns.append(f"s.{attr} //= s.srcw[{o}:{o + t[1]}]")
      # a struct-typed wire: one Bits field is driven through a connection and read back through a slice of a slice
      # (the nested slice belongs to the field signal, not to the struct signal above it)
      if kind == "Wire" and t[0] == "s" and not isinstance(shape, list) and d(st.booleans()):
        leafs = [(path, w) for path, w in S.layout(t) if 3 <= w <= srcw]
        if leafs:
          path, w = d(st.sampled_from(leafs))
          e = f"s.{attr}"
          for p_ in path: e += f"[{p_}]" if isinstance(p_, int) else f".{p_}"
          o = d(st.integers(0, srcw - w))
          conns.append(f"{e} //= s.srcw[{o}:{o + w}]")
          lo = d(st.integers(0, w - 3)); hi = d(st.integers(lo + 2, w))
          a = d(st.integers(0, hi - lo - 1)); b = d(st.integers(a + 1, hi - lo))
          sink_id += 1
          L.append(f"    s.snk{sink_id} = Wire( Bits{b - a} )")
          conns.append(f"s.snk{sink_id} //= {e}[{lo}:{hi}][{a}:{b}]")
          if d(st.booleans()):
            # the same nested slice of a sibling field, if there is one of sufficient width (the two must stay distinct)
            others = [(p2, w2) for p2, w2 in leafs if p2 != path and w2 >= hi]
            if others:
              p2, w2 = d(st.sampled_from(others))
              e2 = f"s.{attr}"
              for p_ in p2: e2 += f"[{p_}]" if isinstance(p_, int) else f".{p_}"
              o2 = d(st.integers(0, srcw - w2))
              conns.append(f"{e2} //= s.srcw[{o2}:{o2 + w2}]")
              sink_id += 1
              L.append(f"    s.snk{sink_id} = Wire( Bits{b - a} )")
              conns.append(f"s.snk{sink_id} //= {e2}[{lo}:{hi}][{a}:{b}]")
    for i in range(d(st.integers(0, 2))):
      iname, members = self.interface(1)
      shape = d(ragged(None, d(st.sampled_from([0, 0, 1, 2]))))
      inv = ""
      L.append(f"    s.ifc{i} = {render_ragged(shape, f'{iname}(){inv}')}")
      for path in ragged_paths(shape):
        base = f"s.ifc{i}" + "".join(f"[{p}]" for p in path)
        for attr, mshape, mt in members:
          if isinstance(mt, tuple): continue
          for mp in ragged_paths(mshape):
            if d(st.integers(0, 2)) == 0:
              mat.extend(self.derived_reads(base + f".{attr}" + "".join(f"[{p}]" for p in mp), mt))
    if d(st.integers(0, 2)) == 0:
      L.append("    s.callee = CalleePort( method=s.a_method )")
    if d(st.integers(0, 3)) == 0:
      L.append("    s.callers = [ CallerPort() for _ in range(2) ]")
    if depth > 0 and pool:
      for i in range(d(st.integers(1, 2))):
        cn = d(st.sampled_from(sorted(pool)))
        shape = d(ragged(None, d(st.sampled_from([0, 0, 1, 2, 3]))))
        L.append(f"    s.c{i} = {render_ragged(shape, f'{cn}()')}")
    L.append("    @update")
    L.append("    def drv():")
    L.append(f"      s.srcw @= 0")
    L.append(f"      s.sel @= 0")
    L.extend("    " + c for c in conns)
    if mat:
      L.append("    @update")
      L.append("    def mat():")
      for k, e in enumerate(mat): L.append(f"      t{k} = {e}")
    L.append("  def a_method( s ):")
    L.append("    return 0")
    self.comp_src.append("\n".join(L) + "\n")


@st.composite
def sources(draw):
  g = Gen(draw)
  pool = {}
  depth = draw(st.integers(0, 2))
  k = 0
  for lvl in range(depth):
    for _ in range(draw(st.integers(1, 2))):
      k += 1
      g.component(f"K{k}", dict(pool) if lvl > 0 else {}, lvl)
      pool[f"K{k}"] = True
  g.component("Top", pool, depth)
  return "from pymtl3 import *\n\n" + "\n".join(g.struct_src) + "\n" + "\n".join(g.ifc_src) + "\n" + "\n".join(g.comp_src)


def load(src, scratch=None):
  tag = next(_uid)
  modname = f"vfc14_{os.getpid()}_{tag}_{hashlib.sha1(src.encode()).hexdigest()[:8]}"
  path = os.path.join(scratch or os.getcwd(), modname + ".py")
  with open(path, "w") as f: f.write(src)
  spec = importlib.util.spec_from_file_location(modname, path)
  mod = importlib.util.module_from_spec(spec)
  sys.modules[modname] = mod

  def cleanup():
    sys.modules.pop(modname, None)
    try: os.remove(path)
    except OSError: pass
  try:
    spec.loader.exec_module(mod)
  except BaseException:
    cleanup(); raise
  return mod.Top, cleanup


SEG = re.compile(r"\.[A-Za-z_][A-Za-z_0-9]*(\[\d+\])*$")
SLICE = re.compile(r"\[\d+:\d+\]$")


def prefix(name):
  if SLICE.search(name): return SLICE.sub("", name)
  m = SEG.search(name)
  if not m: return None
  return name[:m.start()]


def judge(case, stats=None):
  src = case["src"]
  Top, cleanup = load(src)
  try:
    from pymtl3.dsl import Component, Signal, Interface
    from pymtl3.dsl.Connectable import Const
    try:
      top = Top(); top.elaborate()
      top2 = Top(); top2.elaborate()
    except Exception as ex:
      import traceback
      tb = traceback.extract_tb(ex.__traceback__)
      inner = [f for f in tb if "/pymtl3/" in f.filename]
      if not inner: raise
      return (f"elaborate:exception:{type(ex).__name__}@{inner[-1].name}", str(ex)[:300])
    objs = set(top.get_all_object_filter(lambda x: True))
    for w, net in top.get_all_value_nets():
      for x in net:
        if not isinstance(x, Const): objs.add(x)
    names = {}
    for o in objs:
      n = repr(o)
      if n in names and names[n] is not o:
        return ("name:not_unique", f"{n} names two different objects ({type(o).__name__}, {type(names[n]).__name__})")
      names[n] = o
    env = {"s": top}
    for n, o in names.items():
      try:
        back = eval(n, env)
      except Exception as ex:
        return ("name:does_not_evaluate", f"{n}: {type(ex).__name__}: {ex}")
      if back is not o:
        return ("name:evaluates_to_other_object", f"eval({n}) is {back!r} ({type(back).__name__}), not the {type(o).__name__} it names")
      if n == "s":
        if o.get_parent_object() is not None: return ("parent:top_has_parent", "")
        continue
      pn = prefix(n)
      if pn is None: return ("name:malformed", n)
      try:
        par = eval(pn, env)
      except Exception as ex:
        return ("parent:prefix_does_not_evaluate", f"{n} -> {pn}: {ex}")
      if o.get_parent_object() is not par:
        return ("parent:mismatch", f"{n}: get_parent_object() is {o.get_parent_object()!r}, prefix is {pn}")
      # nearest component on the path
      hp = pn
      while True:
        h = eval(hp, env)
        if isinstance(h, Component): break
        hp = prefix(hp)
      if isinstance(o, Component):
        hops = 0; q = n
        while q != "s":
          q = prefix(q)
          if isinstance(eval(q, env), Component): hops += 1
        if o.get_component_level() != hops:
          return ("level:mismatch", f"{n}: get_component_level() {o.get_component_level()} vs {hops} component hops")
      elif hasattr(o, "get_host_component"):
        if o.get_host_component() is not h:
          return ("host:mismatch", f"{n}: host {o.get_host_component()!r}, nearest component on path {hp}")
      if isinstance(o, Signal):
        # the declared (top-level) signal is the longest prefix chain element whose parent is not a Signal
        q = n
        while isinstance(eval(prefix(q), env), Signal): q = prefix(q)
        base = eval(q, env)
        if o.is_top_level_signal() != (base is o):
          return ("signal:is_top_level_signal", f"{n}: {o.is_top_level_signal()} but declared signal is {q}")
        if o.get_top_level_signal() is not base:
          return ("signal:get_top_level_signal", f"{n}: {o.get_top_level_signal()!r} vs {q}")
      exp_field = n[len(pn):].lstrip(".")
      if isinstance(par, Signal) and SLICE.search(n):
        exp_field = None                       # slices: name is parent's field name + slice, checked loosely
      if exp_field is not None and o.get_field_name() != exp_field:
        return ("field_name:mismatch", f"{n}: get_field_name() {o.get_field_name()!r} vs {exp_field!r}")
    objs2 = set(top2.get_all_object_filter(lambda x: True))
    for w, net in top2.get_all_value_nets():
      for x in net:
        if not isinstance(x, Const): objs2.add(x)
    n2 = {repr(o) for o in objs2}
    if n2 != set(names):
      return ("names:differ_between_elaborations", f"{sorted(set(names) ^ n2)[:5]}")
    if stats is not None:
      stats["n"] = len(names)
      stats["two_idx"] = any(re.search(r"\[\d+\]\[\d+\]", x) for x in names)
      stats["fld_idx"] = any(re.search(r"\.[a-zA-Z_]\w*\.[a-zA-Z_]\w*\[\d+\]", x) for x in names)
      stats["slice_of_field"] = any(re.search(r"\.\w+\.\w+(\[\d+\])*\[\d+:\d+\]$", x) for x in names)
    return None
  finally:
    cleanup()


def run_shard(ctx):
  @seed(ctx.hseed())
  @ctx.settings(ctx.n(1600, 40000))
  @given(sources())
  def t(src):
    if ctx.out_of_time(): return
    ctx.count()
    case = {"src": src}
    stats = {}
    v = judge(case, stats)
    for k in ("two_idx", "fld_idx", "slice_of_field"):
      if stats.get(k): ctx.label(k)
    if v is None and (stats.get("two_idx") or stats.get("fld_idx") or stats.get("slice_of_field")):
      ctx.nontriv(hashlib.sha1(src.encode()).hexdigest()[:16])
    ctx.judge(case, v)
    if ctx.evaluations % 31 == 0: ctx.sample({"objects": stats.get("n"), "source": src[:1500]})

  ctx.run(t, "c14")


def replay(case):
  return judge(case)
