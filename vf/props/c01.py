"""C01 -- simulation results do not depend on the schedule chosen and equal the dataflow reference."""
import random

from hypothesis import given, seed, strategies as st

from vf.gen import rtl_gen, rtl_sim

ID = "C01"
LEVEL = "exploration"
RULE = ("case = (generated acyclic RTL design in the harness IR - hierarchy with lists of components, interfaces and lists of interfaces, struct / list signals, lambda connections, @s.func helper functions (statement helpers nested up to three deep, value-returning helpers with a parameter shared by several blocks), child input ports registered by the parent - input sequence, schedule seeds); each design "
        "is simulated under DefaultPassGroup, SimpleSchedule (seeded shuffles), HeuTopoUnrollSim, Mamba2020, "
        "UnrollSim and under forced linear extensions of top._dag.all_constraints with permuted ff orders; "
        "after every sim_eval_combinational and sim_tick all signals are compared with the independent "
        "dataflow evaluator, and every non-ff block is re-run alone (fixed point). non-trivial = design has "
        ">=2 comb units (blocks/connections) where one reads what another drives, >=2 distinct block orders "
        "were actually executed for it, and some signal differs between two cycles; distinct by design+inputs")
ASSUMPTIONS = [
  "the reference evaluator (vf/ref/rtl_eval.py: chaotic iteration to the unique fixed point, self-checked for "
  "confluence from a zeroed state in reverse order) defines the dataflow semantics; it shares no code with pymtl3",
  "designs come from the E1 grammar (Bits/struct signals, slices, fields, hierarchy, connections, if/for/temporaries)",
  "forced schedules are installed by overwriting top._sched.update_schedule / schedule_ff before PrepareSimPass",
]
QUICK_S = 240
THOROUGH_S = 1200


def linear_extension(top, rng):
  """a random linear extension of the constraint partial order over non-ff blocks (Kahn + random pick)"""
  V = list(top._dag.final_upblks - top.get_all_update_ff())
  V.sort(key=lambda f: (f.__name__, repr(top.get_update_block_host_component(f)) if f in top.get_all_update_blocks() else ""))
  succ = {v: [] for v in V}
  ind = {v: 0 for v in V}
  vs = set(V)
  for (u, v) in top._dag.all_constraints:
    if u in vs and v in vs:
      succ[u].append(v); ind[v] += 1
  ready = [v for v in V if ind[v] == 0]
  order = []
  while ready:
    u = ready.pop(rng.randrange(len(ready)))
    order.append(u)
    for v in succ[u]:
      ind[v] -= 1
      if ind[v] == 0: ready.append(v)
  if len(order) != len(V):
    return None
  return order


def order_names(top, order):
  ub = top.get_all_update_blocks()
  return tuple((repr(top.get_update_block_host_component(f)) + "." if f in ub else "net:") + f.__name__ for f in order)


def has_dependency(design):
  from vf.ref.rtl_eval import Model
  m = Model(design)
  written = set(); n_units = 0
  readers = []
  for ip, kind, p in m.comb_units():
    n_units += 1
    if kind == "blk":
      written |= m._written_keys(ip, p["stmts"])
      readers.append((ip, p["stmts"]))
    else:
      written.add(m.key_of(ip, p[0]))
  def reads(ip, x, acc):
    if isinstance(x, dict) and "sig" in x: acc.add(m.key_of(ip, x))
    elif isinstance(x, list):
      for y in x: reads(ip, y, acc)
  for ip, stmts in readers:
    acc = set(); reads(ip, stmts, acc)
    if (acc & written) - m._written_keys(ip, stmts): return True
  return False


def run_config(design, seq, ref, cfg):
  """returns (verdict or None, executed order names)"""
  s = rtl_sim.Sim(design, cfg.get("variant"))
  stage = "elaborate"
  try:
    s.elaborate()
    stage = "apply"
    which = cfg["pass"]
    names = None
    if which == "forced":
      rng = random.Random(cfg["seed"])
      box = {}

      def fo(top):
        o = linear_extension(top, rng)
        if o is None: raise RuntimeError("no linear extension (cyclic constraints)")
        box["names"] = order_names(top, o)
        return o

      def ff(top):
        f = sorted(top._sched.schedule_ff, key=lambda b: (b.__name__, repr(top.get_update_block_host_component(b))))
        rng.shuffle(f)
        box["ff"] = tuple(b.__name__ for b in f)
        return f
      s.apply("forced", rseed=cfg["seed"], force_order=fo, force_ff=ff)
      names = box.get("names", ()) + ("|",) + box.get("ff", ())
    else:
      s.apply(which, rseed=cfg["seed"])
      try:
        names = tuple(getattr(f, "__name__", "?") for f in s.top._sched.update_schedule) + ("|",) + \
                tuple(getattr(f, "__name__", "?") for f in s.top._sched.schedule_ff)
      except Exception:
        names = (which,)
    top = s.top
    nonff = sorted(top._dag.final_upblks - top.get_all_update_ff(), key=lambda f: f.__name__)
    for t, (cyc, (a, b)) in enumerate(zip(seq, ref)):
      stage = "eval"
      s.set_inputs(cyc)
      s.eval_comb()
      got = s.snapshot()
      if got != a:
        dd = rtl_sim.diff(a, got)
        return (f"{which}:eval:value_mismatch", f"cycle {t}: {[(k, got[k], a[k]) for k in dd[:4]]} order={names}"), names
      stage = "fixed_point"
      for blk in nonff:
        blk()
        again = s.snapshot()
        if again != got:
          dd = rtl_sim.diff(got, again)
          return (f"{which}:fixed_point", f"cycle {t}: re-running {blk.__name__} changed {dd[:4]}"), names
      stage = "tick"
      s.tick()
      got = s.snapshot()
      if got != b:
        dd = rtl_sim.diff(b, got)
        return (f"{which}:tick:value_mismatch", f"cycle {t}: {[(k, got[k], b[k]) for k in dd[:4]]} order={names}"), names
    return None, names
  except Exception as ex:
    import traceback
    tb = traceback.extract_tb(ex.__traceback__)
    inner = [f for f in tb if "/pymtl3/" in f.filename]
    where = inner[-1].name if inner else tb[-1].name
    return (f"{cfg['pass']}:{stage}:exception:{type(ex).__name__}@{where}", f"{ex}"[:500]), None
  finally:
    s.close()


def configs(case):
  cfgs = [{"pass": p, "seed": case["seeds"][i % len(case["seeds"])]} for i, p in enumerate(rtl_sim.PASSES)]
  cfgs.append({"pass": "simple", "seed": case["seeds"][-1] + 17})
  for k in range(case["n_ext"]):
    cfgs.append({"pass": "forced", "seed": case["seeds"][k % len(case["seeds"])] * 31 + k})
  return cfgs


def judge(case, stats=None):
  design, seq = case["design"], case["seq"]
  ref = rtl_sim.run_reference(design, seq)       # IRError here = harness bug, propagates
  orders = set()
  for cfg in configs(case):
    v, names = run_config(design, seq, ref, cfg)
    if names: orders.add(names)
    if v is not None:
      return v
  if stats is not None:
    stats["orders"] = len(orders)
    snaps = [a for a, _ in ref] + [b for _, b in ref]
    stats["changes"] = any(snaps[i] != snaps[j] for i in range(len(snaps)) for j in range(i + 1, len(snaps)))
  return None


@st.composite
def cases(draw, n_ext):
  design = draw(rtl_gen.designs(index_chain=draw(st.sampled_from([1, 3])), ifcs=draw(st.booleans())))
  seq = draw(rtl_gen.input_seqs(design))
  seeds = draw(st.lists(st.integers(0, 2 ** 20), min_size=3, max_size=3))
  return {"design": design, "seq": seq, "seeds": seeds, "n_ext": n_ext}


def run_shard(ctx):
  n_ext = 4 if ctx.tier == "quick" else 12

  @seed(ctx.hseed())
  @ctx.settings(ctx.n(640, 16000))
  @given(cases(n_ext))
  def t(case):
    if ctx.out_of_time(): return
    ctx.count()
    for f_ in rtl_gen.features(case["design"]): ctx.label(f_)
    stats = {}
    v = judge(case, stats)
    dep = has_dependency(case["design"])
    if dep: ctx.label("has_comb_dependency")
    if len(case["design"]["classes"]) > 1: ctx.label("hierarchical")
    if stats.get("orders", 0) >= 2: ctx.label("two_or_more_orders")
    if v is None and dep and stats.get("orders", 0) >= 2 and stats.get("changes"):
      ctx.nontriv([case["design"], case["seq"]])
    ctx.judge(case, v)
    if ctx.evaluations % 7 == 0:
      from vf.gen.rtl_render import Renderer
      ctx.sample({"source": Renderer(case["design"]).source("x")[:1500], "cycles": len(case["seq"])})

  ctx.run(t, "c01")


def replay(case):
  for _ in range(3):                        # address-dependent set orders: try a few times
    v = judge(case)
    if v is not None: return v
  return None
