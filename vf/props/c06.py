"""C06 -- bitstruct packing is a lossless, order-preserving bijection; copies do not alias."""
import copy

from hypothesis import given, seed, strategies as st

from vf.gen import structs as S
from vf.strategies import uvalue

ID = "C06"
LEVEL = "exploration"
RULE = ("case = (struct type shape, construction flavour (@bitstruct / mk_bitstruct / mixed), two leaf "
        "valuations, one arbitrary packed pattern); type shapes drawn recursively (Bits leaves, nested "
        "structs, list dims 1-3 of size 1-3, total width < 1024, field names incl. s/self/other/cls/memo); "
        "oracle = independent spec_layout (first field MSB, list element 0 LSB). non-trivial = type has a "
        "nested struct or a list field or two adjacent equal-width fields, and the value is non-zero in "
        ">= 2 leaves (or the type has a single leaf); distinct by (type description, values)")
ASSUMPTIONS = [
  "spec layout is the one stated in the property: first field most significant, list element 0 least significant",
]
QUICK_S = 240
THOROUGH_S = 900


@st.composite
def cases(draw):
  t = draw(S.struct_types())
  lay = S.layout(t)
  how = draw(st.sampled_from(["deco", "mk", "mix"]))
  v1 = [draw(uvalue(w)) for _, w in lay]
  v2 = [draw(uvalue(w)) for _, w in lay]
  if draw(st.integers(0, 3)) == 0: v2 = list(v1)
  tot = sum(w for _, w in lay)
  pat = draw(uvalue(tot))
  return {"type": t, "how": how, "v1": v1, "v2": v2, "pat": pat}


def judge(case):
  import pymtl3
  from pymtl3.datatypes import Bits, mk_bits
  t, how = case["type"], case["how"]
  lay = S.layout(t)
  paths = [p for p, _ in lay]
  pos, tot = S.positions(t)
  cache = {}
  try:
    T = S.build_class(t, how, cache)
  except Exception as ex:
    return "build:unexpected_exception", f"{type(ex).__name__}: {ex}"

  def mkv(vals):
    return S.make_value(t, cache, how, dict(zip(paths, vals)))

  def leaves_of(obj):
    return [int(S.get_leaf(obj, p)) for p in paths]

  if T.nbits != tot:
    return "nbits:wrong", f"nbits {T.nbits}, spec {tot}"
  try:
    a = mkv(case["v1"]); b = mkv(case["v2"])
    pa = S.pack(t, dict(zip(paths, case["v1"]))); pb = S.pack(t, dict(zip(paths, case["v2"])))
    # ---- to_bits layout
    ba = a.to_bits()
    if not isinstance(ba, Bits) or ba.nbits != tot: return "to_bits:wrong_width", repr(ba)
    if int(ba) != pa:
      bad = [p for p in paths if (int(ba) >> pos[p][0]) & ((1 << (pos[p][1] - pos[p][0])) - 1)
             != dict(zip(paths, case["v1"]))[p]]
      return "to_bits:wrong_layout", f"packed {int(ba):#x}, spec {pa:#x}; leaves off: {bad[:4]}"
    # ---- round trips
    ra = T.from_bits(ba)
    if leaves_of(ra) != case["v1"]: return "from_bits:roundtrip_value", f"{leaves_of(ra)} != {case['v1']}"
    if not (ra == a): return "from_bits:roundtrip_eq", "from_bits(to_bits(v)) != v"
    pat = mk_bits(tot)(case["pat"])
    fp = T.from_bits(pat)
    if int(fp.to_bits()) != case["pat"]: return "to_bits:roundtrip_bits", f"{int(fp.to_bits()):#x} != {case['pat']:#x}"
    exp = S.unpack(t, case["pat"])
    if leaves_of(fp) != [exp[p] for p in paths]: return "from_bits:wrong_layout", f"{leaves_of(fp)}"
    # leaf types preserved
    for p, w in lay:
      lf = S.get_leaf(fp, p)
      if not isinstance(lf, Bits) or lf.nbits != w: return "from_bits:leaf_type", f"{p}: {lf!r}"
    # ---- equality / hash
    eq = a == b
    if bool(eq) != (pa == pb): return "eq:disagrees_with_packed", f"a==b is {eq}, packed equal {pa == pb}"
    if bool(a != b) == bool(eq): return "eq:ne_inconsistent", ""
    if not (a == a) or not (a == mkv(case["v1"])): return "eq:not_reflexive", ""
    other_t = ["s", t[1] + "_o", [["only", ["b", tot]]]]
    o = S.make_value(other_t, {}, "deco", {("only",): pa})
    if a == o: return "eq:equal_to_other_type", "struct equals an instance of a different struct type"
    if a == ba and False: pass
    try:
      ha, hb, ha2 = hash(a), hash(b), hash(mkv(case["v1"]))
      if ha != ha2: return "hash:unequal_for_equal", ""
      if pa == pb and ha != hb: return "hash:unequal_for_equal", ""
    except TypeError as ex:
      return ("hash:typeerror_with_list_field" if S.features(t)["list"] else "hash:typeerror_without_list"), str(ex)
    # ---- clone / deepcopy independent
    for nm, mk in (("clone", lambda v: v.clone()), ("deepcopy", lambda v: copy.deepcopy(v))):
      c = mk(a)
      if type(c) is not T: return f"{nm}:wrong_type", repr(type(c))
      if not (c == a) or int(c.to_bits()) != pa: return f"{nm}:not_equal", ""
      for p, w in lay:                           # mutate every leaf of the copy
        lf = S.get_leaf(c, p); lf @= (int(lf) ^ ((1 << w) - 1))
      if int(a.to_bits()) != pa: return f"{nm}:aliases_original", "mutating the copy changed the original"
      c2 = mk(a)
      for p, w in lay:
        lf = S.get_leaf(a, p); lf @= (int(lf) ^ 1)
      if int(c2.to_bits()) != pa: return f"{nm}:aliases_original", "mutating the original changed the copy"
      a = mkv(case["v1"])
    # ---- @= : immediate, field by field, no aliasing
    d = mkv(case["v2"]); s = mkv(case["v1"]); d0 = d
    d @= s
    if d is not d0: return "imatmul:not_in_place", ""
    if int(d.to_bits()) != pa or not (d == s): return "imatmul:wrong_value", f"{int(d.to_bits()):#x} != {pa:#x}"
    for p, w in lay:
      lf = S.get_leaf(s, p); lf @= (int(lf) ^ ((1 << w) - 1))
    if int(d.to_bits()) != pa: return "imatmul:aliases_source", "mutating the source changed the destination"
    s = mkv(case["v1"]); d = mkv(case["v2"]); d @= s
    for p, w in lay:
      lf = S.get_leaf(d, p); lf @= (int(lf) ^ ((1 << w) - 1))
    if int(s.to_bits()) != pa: return "imatmul:aliases_source", "mutating the destination changed the source"
    # ---- <<= : invisible until flip
    d = mkv(case["v2"]); s = mkv(case["v1"]); d0 = d
    d <<= s
    if d is not d0: return "ilshift:not_in_place", ""
    if int(d.to_bits()) != pb: return "ilshift:visible_before_flip", f"{int(d.to_bits()):#x} != {pb:#x}"
    for p, w in lay:
      lf = S.get_leaf(s, p); lf @= (int(lf) ^ ((1 << w) - 1))
    d._flip()
    if int(d.to_bits()) != pa: return "ilshift:wrong_after_flip", f"{int(d.to_bits()):#x} != {pa:#x}"
    # ---- from a Bits source of the packed width
    d = mkv(case["v2"]); d @= mk_bits(tot)(case["pat"])
    if int(d.to_bits()) != case["pat"]: return "imatmul_bits:wrong_value", ""
    d = mkv(case["v2"]); d <<= mk_bits(tot)(case["pat"])
    if int(d.to_bits()) != pb: return "ilshift_bits:visible_before_flip", ""
    d._flip()
    if int(d.to_bits()) != case["pat"]: return "ilshift_bits:wrong_after_flip", ""
    # default construction is all-zero
    z = T()
    if int(z.to_bits()) != 0: return "init:default_not_zero", ""
    z2 = T()
    for p, w in lay:
      lf = S.get_leaf(z, p); lf @= (1 << w) - 1
    if int(z2.to_bits()) != 0: return "init:defaults_shared", "two default-constructed instances share leaves"
  except Exception as ex:
    import traceback
    tb = traceback.extract_tb(ex.__traceback__)
    inner = [f for f in tb if "pymtl3" in f.filename or f.filename.startswith("<")]
    where = inner[-1].name if inner else tb[-1].name
    if not inner:
      raise
    return f"exception:{type(ex).__name__}:{where}", f"{ex}"
  return None


def run_shard(ctx):
  @seed(ctx.hseed())
  @ctx.settings(ctx.n(6000, 240000))
  @given(cases())
  def t(case):
    if ctx.out_of_time(): return
    ctx.count()
    f = S.features(case["type"])
    for k, v in f.items():
      if v: ctx.label("shape_" + k)
    ctx.label("how_" + case["how"])
    nz = sum(1 for x in case["v1"] if x)
    if (f["nested"] or f["list"] or f["adjacent_equal"]) and (nz >= 2 or len(case["v1"]) == 1):
      ctx.nontriv([case["type"], case["v1"], case["v2"]])
    ctx.judge(case, judge(case))
    if ctx.evaluations % 211 == 0: ctx.sample({"type": case["type"], "how": case["how"]})

  ctx.run(t, "c06")


def replay(case):
  return judge(case)
