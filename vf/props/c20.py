"""C20 -- FL, CL and RTL TinyRV0 processors agree with the ISA on every program;
the checksum FL/CL/RTL units agree with the checksum formula."""
import random

from hypothesis import assume, given, seed, strategies as st

from vf.ref import tinyrv0 as T
from vf.ref import cksum as CK

ID = "C20"
LEVEL = "exploration"
RULE = ("processor cases = (generated TinyRV0 program, data image, mngr2proc values, timing config "
        "{src_delay, sink_delay in 0..15, mem_stall_prob in {0,.3,.5,.6}, mem_latency 1..5}, seeds); programs mix ALU/load/store/csr items with RAW chains, loops, forward branches, taken branches placed right behind stalling csrw/lw instructions with a non-idempotent target, and (about one program in ten) taken branches more than 2 KiB forwards and backwards; "
        "each case is run on ProcFL, ProcCL and ProcRTL in the repo's TestHarness and compared with the "
        "independent interpreter (proc2mngr sequence checked by the sink, whole 1 MB memory image read "
        "back).  non-trivial = the executed path has >=1 taken branch, >=1 load-use (distance 1) or "
        "store->load same-address dependency, >=1 RAW at distance 1, and the run has mem_latency > 1 "
        "or mem_stall_prob > 0; distinct by hash of (program, data, consumed mngr2proc, timing). "
        "checksum cases (batches of 8x16-bit word lists through FL function, CL and RTL units under "
        "src/sink delays vs the docstring formula) are counted in evaluations only")
ASSUMPTIONS = [
  "programs are generated, hence terminate by construction; a level that does not finish within the "
  "cycle bound is inconclusive unless another level finished the same program",
  "tinyrv0-isa.md lists ten instructions (csrr csrw add sll srl and addi lw sw bne; no mul) - all ten "
  "are generated; nop is the RISC-V canonical addi x0,x0,0; xcelreg CSRs are excluded because the ISA "
  "document leaves their semantics to the accelerator",
  "the ISA document does not define register reset values: every register is written before it is read",
  "only defined behaviour is generated: aligned lw/sw inside the data region, csrr only from mngr2proc, "
  "csrw only to proc2mngr; after the last csrw the processors run into nop padding / zero memory for a "
  "few cycles exactly as in the repo's own tests",
  "mem_latency 0 is not explored (the repo never uses it); the StallCL random generators of the test "
  "memory are re-seeded with a Hypothesis-drawn value (the library fixes them per port)",
  "checksum: 128-bit message layout = word i in bits [16i,16i+16) (examples/ex02_cksum/utils.py)",
]
QUICK_S = 240
THOROUGH_S = 780

LEVELS = ("FL", "CL", "RTL")
DATA_WORDS = 64                    # words in the data region
DATA_BYTES = DATA_WORDS * 4
LOW_BASE, LOW_WORDS = 0x100, 32   # second small data area below the reset vector, addressed off x0
DATA_BASES = [0x2000, 0x3000, 0x10000, 0x7F800, 0xFE000]
POOL = [1, 2, 3, 4, 5, 6, 7]       # registers under pressure
R_B0, R_B1, R_B2, R_B3, R_MASK = 31, 30, 29, 28, 27
LOOP_REGS = [8, 9]
EXTRA_TICKS = 16

_env = {}


def env():
  if not _env:
    import pymtl3
    from pymtl3 import Component, Bits32, Bits128, DefaultPassGroup, mk_bits
    from pymtl3.stdlib.connects import connect_pairs
    from pymtl3.stdlib.test_utils import TestSinkCL, TestSrcCL
    from pymtl3.stdlib.test_utils.test_sinks import PyMTLTestSinkError
    from examples.ex03_proc.test.harness import TestHarness
    from examples.ex03_proc.SparseMemoryImage import SparseMemoryImage
    from examples.ex03_proc.ProcFL import ProcFL
    from examples.ex03_proc.ProcCL import ProcCL
    from examples.ex03_proc.ProcRTL import ProcRTL
    from examples.ex02_cksum.ChecksumFL import checksum
    from examples.ex02_cksum.ChecksumCL import ChecksumCL
    from examples.ex02_cksum.ChecksumRTL import ChecksumRTL

    class CksumHarness(Component):
      # same parts as the TestHarness of examples/ex02_cksum/test/ChecksumCL_test.py, with the
      # source/sink delays as constructor parameters
      def construct(s, DutType, src_msgs, sink_msgs, src_init, src_intv, sink_init, sink_intv):
        s.src = TestSrcCL(Bits128, src_msgs, src_init, src_intv)
        s.dut = DutType()
        s.sink = TestSinkCL(Bits32, sink_msgs, sink_init, sink_intv)
        connect_pairs(s.src.send, s.dut.recv, s.dut.send, s.sink.recv)

      def done(s):
        return s.src.done() and s.sink.done()

    _env.update(Bits32=Bits32, Bits128=Bits128, DefaultPassGroup=DefaultPassGroup, mk_bits=mk_bits,
                TestHarness=TestHarness, SparseMemoryImage=SparseMemoryImage,
                SinkError=PyMTLTestSinkError, procs={"FL": ProcFL, "CL": ProcCL, "RTL": ProcRTL},
                cksum_fl=checksum, cksum_units={"CL": ChecksumCL, "RTL": ChecksumRTL},
                CksumHarness=CksumHarness)
  return _env


# ---------------------------------------------------------------------------
# running one level
# ---------------------------------------------------------------------------

def cycle_bound(steps, n_in, n_out, cfg):
  """generous bound: the measured worst case over the three levels is < 1/10 of it (the evidence
  reports max_cycles_over_bound)"""
  p = cfg["mem_stall_prob"]
  per_inst = (8 + 4 * cfg["mem_latency"]) / (1.0 - p)
  return 2 * int(300 + (steps + 12) * per_inst
                 + n_in * (cfg["src_delay"] + 2) + n_out * (cfg["sink_delay"] + 2))


# a live processor commits an instruction at least every few dozen cycles (delays <= 15, latency <= 5,
# stall probability <= .6); no commit at all for this many cycles before the sink is done = stuck
NO_COMMIT_WINDOW = 1500


def run_level(level, sections, m2p, expect, cfg, bound):
  """-> dict(status=done|timeout|sink_error|exception, cycles, detail, mem)"""
  e = env()
  Bits32 = e["Bits32"]
  th = e["TestHarness"](e["procs"][level], src_delay=cfg["src_delay"], sink_delay=cfg["sink_delay"],
                        mem_stall_prob=cfg["mem_stall_prob"], mem_latency=cfg["mem_latency"])
  th.elaborate()
  img = e["SparseMemoryImage"]()
  for i, (addr, data) in enumerate(sections):
    img.add_section(f".sec{i}", addr, bytearray(data))
  if m2p:
    img.add_section(".mngr2proc", 0x13000, T.words_to_bytes(m2p))
  img.add_section(".proc2mngr", 0x14000, T.words_to_bytes(expect))
  th.load(img)
  for i, stall in enumerate(th.mem.req_stalls):
    stall.stall_rgen.seed(cfg["stall_seed"] * 2 + i)
  random.seed(cfg["sched_seed"])
  th.apply(e["DefaultPassGroup"]())
  res = {"status": "done", "cycles": 0, "detail": "", "mem": None}
  n = 0
  try:
    th.sim_reset()
    idle = 0
    while not th.done() and n < bound and idle < NO_COMMIT_WINDOW:
      th.sim_tick()
      n += 1
      idle = 0 if th.commit_inst else idle + 1
    if th.done():
      # keep going for a while: an extra proc2mngr message must make the sink raise
      for _ in range(cfg["sink_delay"] + EXTRA_TICKS):
        th.sim_tick()
    else:
      res["status"] = "timeout"
      res["detail"] = (f"after {n} cycles: sink received {th.sink.idx}/{len(expect)} messages, "
                       f"source has {len(th.src.msgs)}/{len(m2p)} left")
  except e["SinkError"] as ex:
    res["status"] = "sink_error"
    res["detail"] = f"message #{th.sink.idx}: " + " ".join(str(ex).split())
  except Exception as ex:      # raised by the simulated model while executing a legal program
    res["status"] = "exception"
    res["detail"] = f"{type(ex).__name__}: " + " ".join(str(ex).split())[:300]
    res["exc_type"] = type(ex).__name__
  res["cycles"] = n
  if res["status"] == "done":
    if th.sink.idx != len(expect):
      res["status"] = "sink_error"
      res["detail"] = f"sink done with {th.sink.idx}/{len(expect)} messages"
    res["mem"] = bytes(th.mem.read_mem(0, T.MEM_SIZE - 1))
  return res


def first_mem_diff(got, exp):
  for a in range(0, len(got) & ~3, 4):
    if got[a:a + 4] != exp[a:a + 4]:
      return a, int.from_bytes(got[a:a + 4], "little"), int.from_bytes(exp[a:a + 4], "little")
  return None


def interpret(case):
  words, _ = T.assemble(case["program"])
  sections = T.memory_image(words, case["data"], case["data_base"])
  sections.append((LOW_BASE, T.words_to_bytes(case.get("low_data", []))))
  halt = T.RESET_VECTOR + 4 * len(words)
  ref = T.run(sections, case["mngr2proc"], halt, max_steps=20000)
  return sections, ref


def judge_proc(case, levels=LEVELS, info=None, stop=None):
  """Runs the case on every level.  -> None | (signature, detail) | 'out_of_time'"""
  sections, ref = interpret(case)
  if len(ref.consumed) != len(case["mngr2proc"]):
    raise ValueError("case carries mngr2proc values the program never reads")
  cfg = case["cfg"]
  bound = cycle_bound(ref.steps, len(ref.consumed), len(ref.out), cfg)
  results = {}
  for lv in levels:
    if stop is not None and stop():
      return "out_of_time"
    results[lv] = run_level(lv, sections, ref.consumed, ref.out, cfg, bound)
  if info is not None:
    info["ref"] = ref
    info["results"] = results
    info["bound"] = bound
  exp_mem = bytes(ref.mem[:T.MEM_SIZE - 1])
  finished = [lv for lv in levels if results[lv]["status"] != "timeout"]
  for lv in levels:
    r = results[lv]
    if r["status"] == "sink_error":
      return f"{lv}:wrong_or_extra_proc2mngr", r["detail"] + f" | expected sequence {[hex(v) for v in ref.out]}"
    if r["status"] == "exception":
      return f"{lv}:exception:{r['exc_type']}", r["detail"]
    if r["status"] == "done" and r["mem"] != exp_mem:
      a, g, x = first_mem_diff(r["mem"], exp_mem)
      return f"{lv}:memory_image", f"word at {a:#x} is {g:#010x}, interpreter has {x:#010x}"
  for lv in levels:
    if results[lv]["status"] == "timeout" and finished:
      return (f"{lv}:not_finished",
              f"{lv} {results[lv]['detail']} (bound {bound}); finished: "
              + ", ".join(f"{o} in {results[o]['cycles']}" for o in finished))
  return None


# ---------------------------------------------------------------------------
# program generator
# ---------------------------------------------------------------------------

VALS = [0, 1, 2, 3, 4, 31, 32, 33, 0x7FF, 0x800, 0xFFF, 0x1000, 0x7FFFFFFF, 0x80000000, 0x80000001,
        0xFFFFFFFF, 0xFFFFFFFE, 0xFFFFF800, 0xFFFF0000, 0x0000FFFF, 0xAAAAAAAA, 0x55555555, 0xDEADBEEF]
value32 = st.one_of(st.sampled_from(VALS), st.integers(0, 0xFFFFFFFF), st.integers(0, 40))
imm12 = st.one_of(st.sampled_from([0, 1, -1, 2047, -2048, 4, -4, 31, 32, 1024, -1024, 0x555, -0x556]),
                  st.integers(-2048, 2047))


class Gen:
  """builds the instruction list; every random decision comes from `draw`"""

  def __init__(self, draw):
    self.draw = draw
    self.out = []
    self.recent = []          # destination registers of the last emitted instructions
    self.pool = []            # pool registers initialised so far (all of POOL after the prologue)
    self.nlabel = 0

  def i(self, lo, hi):
    return self.draw(st.integers(lo, hi))

  def emit(self, ins, dest=0):
    self.out.append(ins)
    self.recent.insert(0, dest)
    del self.recent[3:]

  def label(self):
    self.nlabel += 1
    return f"L{self.nlabel}"

  def src(self, extra=()):
    k = self.i(0, 9)
    live = [r for r in self.recent if r]
    if k <= 4 and live:                              # reuse a just-written register: RAW distance 1-3
      return live[self.i(0, len(live) - 1)] if k > 1 else live[0]
    if k == 5: return 0
    if k == 6 and extra: return extra[self.i(0, len(extra) - 1)]
    if not self.pool: return 0
    return self.pool[self.i(0, len(self.pool) - 1)]

  def dst(self):
    if self.i(0, 15) == 0: return 0
    return POOL[self.i(0, len(POOL) - 1)]

  def addr(self):
    """static address operand: (base register, offset) of a word in the data region"""
    if self.i(0, 6) == 0:                            # base register x0, low data area
      k = self.i(0, LOW_WORDS - 1)
      return 0, LOW_BASE + 4 * k, k
    k = self.i(0, DATA_WORDS - 1) if self.i(0, 2) else self.i(0, 3)
    b = self.i(0, 3)
    if b == 0: return R_B0, 4 * k, k
    if b == 1: return R_B1, 4 * k - DATA_BYTES, k
    if b == 2: return R_B2, 4 * k - 2044, k
    return R_B3, 4 * k + 1792, k

  def addr_of(self, k):
    b = self.i(0, 3)
    return [(R_B0, 4 * k), (R_B1, 4 * k - DATA_BYTES), (R_B2, 4 * k - 2044), (R_B3, 4 * k + 1792)][b]

  # -- items ------------------------------------------------------------------
  def alu(self, ro):
    op = ("add", "add", "sll", "srl", "and", "add")[self.i(0, 5)]
    rd = self.dst()
    self.emit((op, rd, self.src(ro), self.src(ro)), rd)

  def addi(self, ro):
    rd = self.dst()
    self.emit(("addi", rd, self.src(ro), self.draw(imm12)), rd)

  def lw(self):
    base, off, _ = self.addr()
    rd = self.dst()
    self.emit(("lw", rd, off, base), rd)

  def sw(self, ro):
    base, off, _ = self.addr()
    self.emit(("sw", self.src(ro), off, base))

  def dyn_mem(self, ro):
    """address computed from data just before the access: and / add / lw|sw"""
    ra = POOL[self.i(0, len(POOL) - 1)]
    self.emit(("and", ra, self.src(ro), R_MASK), ra)
    if self.i(0, 3) == 0: self.alu_filler(ra)
    self.emit(("add", ra, ra, R_B0) if self.i(0, 1) else ("add", ra, R_B0, ra), ra)
    if self.i(0, 3) == 0: self.alu_filler(ra)
    if self.i(0, 1):
      rd = self.dst()
      self.emit(("lw", rd, 0, ra), rd)
    else:
      self.emit(("sw", self.src(ro), 0, ra))

  def alu_filler(self, avoid):
    rd = [r for r in POOL if r != avoid][self.i(0, len(POOL) - 2)]
    self.emit(("addi", rd, self.src(), self.draw(imm12)), rd)

  def store_load(self, ro):
    """sw then lw of the same word, possibly through different base registers, 0-2 fillers between"""
    k = self.i(0, DATA_WORDS - 1)
    b1, o1 = self.addr_of(k)
    b2, o2 = self.addr_of(k)
    self.emit(("sw", self.src(ro), o1, b1))
    for _ in range((0, 0, 1, 2)[self.i(0, 3)]):
      self.alu(ro)
    rd = self.dst()
    self.emit(("lw", rd, o2, b2), rd)
    if self.i(0, 1):                                 # immediate use of the loaded value
      r2 = self.dst()
      self.emit(("add", r2, rd, self.src(ro)), r2)

  def load_use(self, ro):
    base, off, _ = self.addr()
    rd = POOL[self.i(0, len(POOL) - 1)]
    self.emit(("lw", rd, off, base), rd)
    k = self.i(0, 4)
    if k == 0: self.emit(("csrw", T.CSR_PROC2MNGR, rd))
    elif k == 1: self.emit(("sw", rd, *self.addr()[1::-1]))
    elif k == 2:
      r2 = self.dst(); self.emit(("add", r2, self.src(ro), rd), r2)
    elif k == 3:
      r2 = self.dst(); self.emit(("addi", r2, rd, self.draw(imm12)), r2)
    else:                                            # loaded value decides a branch
      self.fwd_branch(ro, 0, regs=(rd, self.src(ro)))

  def csrr(self):
    rd = self.dst()
    self.emit(("csrr", rd, T.CSR_MNGR2PROC), rd)

  def csrw(self, ro):
    self.emit(("csrw", T.CSR_PROC2MNGR, self.src(ro)))

  def csr_pair(self, ro):
    k = self.i(0, 3)
    if k == 0:
      rd = POOL[self.i(0, len(POOL) - 1)]
      self.emit(("csrr", rd, T.CSR_MNGR2PROC), rd)
      self.emit(("csrw", T.CSR_PROC2MNGR, rd))
    elif k == 1:
      self.csrr(); self.csrr()
    elif k == 2:
      self.csrw(ro); self.csrw(ro)
    else:
      self.csrw(ro); self.csrr()

  def fwd_branch(self, ro, depth, regs=None):
    if regs is None:
      k = self.i(0, 5)
      if k == 0:                                     # never taken
        a = self.src(ro); regs = (a, a)
      elif k == 1:                                   # always taken, operand produced right before
        a = self.src(ro)
        t = POOL[self.i(0, len(POOL) - 1)]
        self.emit(("addi", t, a, (1, -1, 4, 2047)[self.i(0, 3)]), t)
        regs = (t, a) if (t != a) else (t, 0)
      else:
        regs = (self.src(ro), self.src(ro))
    lab = self.label()
    self.emit(("bne", regs[0], regs[1], lab))
    self.block(self.i(0, 3), depth + 1, ro, allow_loop=False)
    self.out.append(("label", lab))

  def stall_branch(self, ro):
    """a taken branch right behind instructions that wait in M / W (writes to the manager under sink back-pressure,
    loads under memory stalls), with a non-idempotent instruction at the branch target: a squash or redirect that is
    repeated while the branch waits shows as the target executing twice"""
    a = self.src(ro)
    t = POOL[self.i(0, len(POOL) - 1)]
    self.emit(("addi", t, a, (1, -1, 4, 2047)[self.i(0, 3)]), t)
    regs = (t, a) if t != a else (t, 0)
    k = self.i(0, 3)
    if k == 0: self.csrw(ro); self.csrw(ro)
    elif k == 1: self.csrw(ro); self.csrw(ro); self.csrw(ro)
    elif k == 2: self.lw(); self.csrw(ro)
    else: self.csrw(ro); self.lw()
    lab = self.label()
    self.emit(("bne", regs[0], regs[1], lab))
    for _ in range(self.i(0, 2)): self.alu(ro)
    self.out.append(("label", lab))
    r = POOL[self.i(0, len(POOL) - 1)]
    self.emit(("addi", r, r, (1, 3, -1, 0x155)[self.i(0, 3)]), r)
    if self.i(0, 1): self.emit(("csrw", T.CSR_PROC2MNGR, r))

  def far_branch(self, ro):
    """taken branches whose target is more than 2 KiB away, forwards and backwards (offsets that need bit 11 and the
    sign bit of the B-immediate to differ); the padding in between is never executed"""
    self.far_done = True
    a = self.src(ro)
    t = POOL[self.i(0, len(POOL) - 1)]
    self.emit(("addi", t, a, 1), t)
    regs = (t, a) if t != a else (t, 0)
    fwd, back, end = self.label(), self.label(), self.label()
    r1 = [r for r in POOL if r not in regs][0]
    r2 = [r for r in POOL if r not in regs][1]
    self.emit(("bne", regs[0], regs[1], fwd))
    self.out.append(("label", back))
    self.emit(("addi", r1, r1, 1), r1)
    self.emit(("bne", regs[0], regs[1], end))
    for _ in range(self.i(513, 700)): self.out.append(("nop",))
    self.out.append(("label", fwd))
    self.emit(("addi", r2, r2, 3), r2)
    self.emit(("bne", regs[0], regs[1], back))
    self.out.append(("label", end))
    self.emit(("csrw", T.CSR_PROC2MNGR, r1)); self.emit(("csrw", T.CSR_PROC2MNGR, r2))

  def loop(self, ro, depth, nloop):
    rc = LOOP_REGS[nloop]
    n = self.i(1, 8) if nloop == 0 else self.i(1, 3)
    lab = self.label()
    up = self.i(0, 3) == 0
    if up:
      # count up to a limit held in a pool register is unsafe (body may overwrite it): count
      # from -n up to 0 instead
      self.emit(("addi", rc, 0, -n), rc)
    else:
      self.emit(("addi", rc, 0, n), rc)
    self.out.append(("label", lab))
    self.block(self.i(1, 4), depth + 1, tuple(ro) + (rc,), allow_loop=(nloop == 0), nloop=nloop + 1)
    self.emit(("addi", rc, rc, 1 if up else -1), rc)
    self.emit(("bne", rc, 0, lab) if self.i(0, 1) else ("bne", 0, rc, lab))

  ITEMS = ["alu"] * 22 + ["addi"] * 10 + ["lw"] * 8 + ["sw"] * 8 + ["dyn_mem"] * 5 + ["store_load"] * 6 + \
          ["load_use"] * 6 + ["csrr"] * 4 + ["csrw"] * 8 + ["csr_pair"] * 4 + ["fwd"] * 11 + ["loop"] * 7 + \
          ["nop"] * 2 + ["stall_branch"] * 7 + ["far_branch"] * 1

  def block(self, nitems, depth, ro, allow_loop=True, nloop=0):
    for _ in range(nitems):
      kind = self.ITEMS[self.i(0, len(self.ITEMS) - 1)]
      if kind == "loop" and not (allow_loop and nloop < len(LOOP_REGS) and depth < 3):
        kind = "alu"
      if kind == "fwd" and depth >= 4:
        kind = "addi"
      if kind == "far_branch" and (depth > 0 or getattr(self, "far_done", False)):
        kind = "stall_branch"
      if kind == "stall_branch": self.stall_branch(ro)
      elif kind == "far_branch": self.far_branch(ro)
      elif kind == "alu": self.alu(ro)
      elif kind == "addi": self.addi(ro)
      elif kind == "lw": self.lw()
      elif kind == "sw": self.sw(ro)
      elif kind == "dyn_mem": self.dyn_mem(ro)
      elif kind == "store_load": self.store_load(ro)
      elif kind == "load_use": self.load_use(ro)
      elif kind == "csrr": self.csrr()
      elif kind == "csrw": self.csrw(ro)
      elif kind == "csr_pair": self.csr_pair(ro)
      elif kind == "fwd": self.fwd_branch(ro, depth)
      elif kind == "loop": self.loop(ro, depth, nloop)
      else: self.emit(("nop",))

  def prologue(self, data_base):
    # reserved registers: data-region bases and the offset mask; then every pool register
    if self.i(0, 1):
      self.emit(("csrr", R_B0, T.CSR_MNGR2PROC), R_B0)
      first_inputs = [data_base]
    else:
      # build the base with addi + sll (data_base is a multiple of 0x800, below 2^20)
      self.emit(("addi", R_B0, 0, data_base >> 11), R_B0)
      self.emit(("addi", R_MASK, 0, 11), R_MASK)
      self.emit(("sll", R_B0, R_B0, R_MASK), R_B0)
      first_inputs = []
    rest = [("addi", R_B1, R_B0, DATA_BYTES), ("addi", R_B2, R_B0, 2044), ("addi", R_B3, R_B0, -1792),
            ("addi", R_MASK, 0, DATA_BYTES - 4)]
    order = self.draw(st.permutations(range(len(rest))))
    for j in order:
      self.emit(rest[j], rest[j][1])
    for r in self.draw(st.permutations(POOL)):
      if self.i(0, 2) == 0:
        self.emit(("csrr", r, T.CSR_MNGR2PROC), r)
      else:
        self.emit(("addi", r, self.src(), self.draw(imm12)), r)
      self.pool.append(r)
    return first_inputs

  def epilogue(self):
    regs = self.draw(st.permutations(POOL))
    n = self.i(1, len(POOL))
    for r in regs[:n]:
      self.emit(("csrw", T.CSR_PROC2MNGR, r))
    for _ in range(self.i(2, 4)):
      self.emit(("nop",))


def expand(base, n):
  """n data words from a few drawn ones: the drawn (boundary-biased) values first, then mixed copies"""
  return [(base[i % len(base)] ^ (0x9E3779B1 * (i // len(base)))) & T.MASK32 for i in range(n)]


@st.composite
def proc_cases(draw, max_items=14, max_steps=260):
  data_base = draw(st.sampled_from(DATA_BASES))
  g = Gen(draw)
  first_inputs = g.prologue(data_base)
  g.block(draw(st.integers(4, max_items)), 0, (R_B0, R_MASK))
  g.epilogue()
  program = [T.fmt(x) for x in g.out]
  data = expand(draw(st.lists(value32, min_size=4, max_size=10)), DATA_WORDS)
  low_data = expand(draw(st.lists(value32, min_size=2, max_size=6)), LOW_WORDS)
  pool = draw(st.lists(value32, min_size=1, max_size=12))
  words, _ = T.assemble(program)
  halt = T.RESET_VECTOR + 4 * len(words)

  def feed(i):
    if i < len(first_inputs): return first_inputs[i]
    j = i - len(first_inputs)
    return (pool[j % len(pool)] + 0x01010101 * (j // len(pool))) & T.MASK32

  try:
    ref = T.run(T.memory_image(words, data, data_base) + [(LOW_BASE, T.words_to_bytes(low_data))],
                feed, halt, max_steps=max_steps)
  except T.StepLimit:
    assume(False)
  cfg = {
    "src_delay": draw(st.one_of(st.integers(0, 3), st.integers(0, 15))),
    "sink_delay": draw(st.one_of(st.integers(0, 3), st.integers(0, 15))),
    "mem_stall_prob": draw(st.sampled_from([0, 0.3, 0.5, 0.6])),
    "mem_latency": draw(st.sampled_from([1, 2, 2, 3, 4, 5])),
    "stall_seed": draw(st.integers(0, 2 ** 16)),
    "sched_seed": draw(st.integers(0, 2 ** 16)),
  }
  return {"kind": "proc", "program": program, "data_base": data_base, "data": data, "low_data": low_data,
          "mngr2proc": list(ref.consumed), "cfg": cfg}


def is_nontrivial(stats, cfg):
  taken = stats.get("br_taken_fwd", 0) + stats.get("br_taken_back", 0)
  dep = stats.get("load_use_d1", 0) + stats.get("store_load_same_addr", 0)
  return bool(taken and dep and stats.get("raw_d1", 0)
              and (cfg["mem_latency"] > 1 or cfg["mem_stall_prob"] > 0))


def one_proc(ctx, case):
  info = {}
  v = judge_proc(case, info=info, stop=ctx.out_of_time)
  if v == "out_of_time":
    return
  ref, results, cfg = info["ref"], info["results"], case["cfg"]
  stats = ref.stats
  ctx.label("programs")
  ctx.label("dyn_instructions", ref.steps)
  for k, n in stats.items():
    if k.startswith("inst_") or k in ("nop", "write_x0", "mem_neg_offset", "mem_base_x0"):
      ctx.label("dyn_" + k, n)
    else:
      ctx.label("prog_with_" + k)
  for k in ("br_taken_fwd", "br_taken_back", "br_nottaken_fwd", "br_nottaken_back"):
    ctx.label("dyn_" + k, stats.get(k, 0))
  if len(case["program"]) > 500: ctx.label("prog_with_far_branches_over_2KiB")
  ctx.label(f"cfg_mem_latency_{cfg['mem_latency']}")
  ctx.label(f"cfg_stall_{cfg['mem_stall_prob']}")
  ctx.label("cfg_src_delay_" + ("0" if cfg["src_delay"] == 0 else "1-3" if cfg["src_delay"] <= 3 else "4-15"))
  ctx.label("cfg_sink_delay_" + ("0" if cfg["sink_delay"] == 0 else "1-3" if cfg["sink_delay"] <= 3 else "4-15"))
  ratio = 0.0
  for lv in LEVELS:
    ctx.count()
    ctx.label(f"{lv}_{results[lv]['status']}")
    if results[lv]["status"] == "timeout":
      ctx.label("inconclusive_not_finished_" + lv)
    ratio = max(ratio, results[lv]["cycles"] / info["bound"])
    ctx.extra["cycles_" + lv] = ctx.extra.get("cycles_" + lv, 0) + results[lv]["cycles"]
  ctx.extra["max_cycle_ratio"] = max(ctx.extra.get("max_cycle_ratio", 0.0), ratio)
  if is_nontrivial(stats, cfg):
    ctx.nontriv({"p": case["program"], "d": case["data"], "l": case["low_data"], "m": case["mngr2proc"],
                 "c": [cfg[k] for k in ("src_delay", "sink_delay", "mem_stall_prob", "mem_latency")]})
  if ctx.classes.get("programs", 0) % 7 == 1:
    ctx.sample({"program": case["program"], "cfg": cfg, "mngr2proc": [hex(x) for x in case["mngr2proc"]],
                "proc2mngr": [hex(x) for x in ref.out], "dynamic_instructions": ref.steps})
  ctx.judge(case, v)


# ---------------------------------------------------------------------------
# checksum
# ---------------------------------------------------------------------------

W_BOUND = [0, 1, 2, 0x7FFF, 0x8000, 0x8001, 0xFFFE, 0xFFFF, 0x00FF, 0xFF00, 0x5555, 0xAAAA]
word16 = st.one_of(st.sampled_from(W_BOUND), st.integers(0, 0xFFFF))
words8 = st.one_of(st.lists(word16, min_size=8, max_size=8),
                   st.lists(st.sampled_from([0, 0xFFFF, 0x8000, 1]), min_size=8, max_size=8))


@st.composite
def cksum_cases(draw):
  return {"kind": "cksum", "msgs": draw(st.lists(words8, min_size=1, max_size=5)),
          "src_init": draw(st.integers(0, 10)), "src_intv": draw(st.integers(0, 3)),
          "sink_init": draw(st.integers(0, 10)), "sink_intv": draw(st.integers(0, 3)),
          "sched_seed": draw(st.integers(0, 2 ** 16))}


def judge_cksum(case):
  e = env()
  mk = e["mk_bits"]
  B16, B32, B128 = mk(16), e["Bits32"], e["Bits128"]
  msgs = case["msgs"]
  exp = [CK.checksum(ws) for ws in msgs]
  for ws, x in zip(msgs, exp):
    try:
      got = e["cksum_fl"]([B16(w) for w in ws])
    except Exception as ex:
      return "cksum:FL:exception:" + type(ex).__name__, f"{ws}: {ex}"
    if got.nbits != 32 or int(got) != x:
      return "cksum:FL:mismatch", f"checksum({[hex(w) for w in ws]}) = {got!r}, formula gives {x:#010x}"
  for lv, Dut in e["cksum_units"].items():
    th = e["CksumHarness"](Dut, [B128(CK.pack128(ws)) for ws in msgs], [B32(x) for x in exp],
                           case["src_init"], case["src_intv"], case["sink_init"], case["sink_intv"])
    th.elaborate()
    random.seed(case["sched_seed"])
    th.apply(e["DefaultPassGroup"]())
    bound = 200 + 40 * len(msgs)
    n = 0
    try:
      th.sim_reset()
      while not th.done() and n < bound:
        th.sim_tick(); n += 1
      if not th.done():
        return f"cksum:{lv}:not_finished", f"{th.sink.idx}/{len(exp)} results after {n} cycles"
      for _ in range(case["sink_intv"] + 6):
        th.sim_tick()
    except e["SinkError"] as ex:
      return (f"cksum:{lv}:mismatch", f"result #{th.sink.idx} for words "
              f"{[hex(w) for w in msgs[min(th.sink.idx, len(msgs) - 1)]]}: " + " ".join(str(ex).split()))
    except Exception as ex:
      return f"cksum:{lv}:exception:{type(ex).__name__}", " ".join(str(ex).split())[:300]
  return None


def one_cksum(ctx, case):
  v = judge_cksum(case)
  ctx.count(3)
  ctx.label("cksum_batches")
  ctx.label("cksum_word_lists", len(case["msgs"]))
  if any(all(w in (0, 0xFFFF, 0x8000, 1) for w in ws) for ws in case["msgs"]):
    ctx.label("cksum_all_boundary_lists")
  ctx.judge(case, v)


# ---------------------------------------------------------------------------
# entry points
# ---------------------------------------------------------------------------

def run_shard(ctx):
  # fixed boundary checksum inputs first (one shard), then generated ones
  if ctx.shard == 0:
    fixed = [[w] * 8 for w in W_BOUND] + [[0xFFFF, 0] * 4, [0, 0xFFFF] * 4, list(range(1, 9)),
                                          [0x8000] * 7 + [1], [0xFFFF] * 7 + [1]]
    one_cksum(ctx, {"kind": "cksum", "msgs": fixed, "src_init": 0, "src_intv": 0, "sink_init": 0,
                    "sink_intv": 0, "sched_seed": 0})
    one_cksum(ctx, {"kind": "cksum", "msgs": fixed, "src_init": 3, "src_intv": 2, "sink_init": 7,
                    "sink_intv": 3, "sched_seed": 1})

  @seed(ctx.hseed(1))
  @ctx.settings(ctx.n(320, 12000))
  @given(cksum_cases())
  def t_cksum(case):
    if ctx.out_of_time(): return
    one_cksum(ctx, case)

  ctx.run(t_cksum, "c20_cksum")
  if ctx.violations:
    return

  # processor programs: Hypothesis runs in chunks with fresh seeds, so that an exhausted wall budget
  # ends the shard after at most one chunk of (skipped) examples
  small = ctx.tier == "quick"
  total = ctx.n(1280, 32000)
  chunk = 20 if small else 40
  strat = proc_cases(max_items=12 if small else 18, max_steps=220 if small else 400)
  done = 0
  while done < total and not ctx.violations and not ctx.out_of_time():
    n = min(chunk, total - done)

    @seed(ctx.hseed(2) * 100003 + done)
    @ctx.settings(n)
    @given(strat)
    def t_proc(case):
      if ctx.out_of_time(): return
      one_proc(ctx, case)

    ctx.run(t_proc, "c20_proc")
    done += n
  ctx.extra["chunks"] = (done + chunk - 1) // chunk


def replay(case):
  if case.get("kind") == "cksum":
    return judge_cksum(case)
  v = judge_proc(case)
  return v


def extra_coverage(merged):
  ex = merged["extra"]
  cyc = {lv: sum(ex.get("cycles_" + lv, [])) for lv in LEVELS}
  return {"simulated_cycles": cyc,
          "max_cycles_over_bound": round(max(ex.get("max_cycle_ratio", [0.0])), 3),
          "exhaustive": False,
          "note": "whole 1 MB memory image (minus the last byte, a read_mem limit) is compared for all "
                  "three levels; a level that hits the cycle bound while another finished is a violation"}
