"""C02 -- within a cycle every reader runs after its writer, in every scheduler; explicit
constraints are honoured; signal-free constraint cycles are rejected."""
import random

from hypothesis import given, seed, strategies as st

from vf.gen import rtl_gen, rtl_sim
from vf.ref.rtl_eval import Model, static_rw, conn_edges, reach, type_width
from vf.props import c01

ID = "C02"
LEVEL = "exploration"
RULE = ("case = (generated acyclic RTL design (same grammar as C01, reads and writes through nested @s.func helpers included) with explicit U(a)<U(b) constraints, two input vectors, pass seeds) "
        "or (design + a ring of 2-4 U<U constraints over mutually independent blocks, optionally next to 1-3 legal false combinational loops); per pass the executed block "
        "order is recorded with sys.setprofile during sim_eval_combinational; obligations: each user block and "
        "each net block is called exactly once; for user blocks A,B where a bit written by A reaches (through "
        "connections, computed from the IR) a bit read by B, pos(A)<pos(B); at each block's call in a second "
        "evaluation every bit it reads that differs between the two reference fixed points already holds its new "
        "value; explicit constraints respected; constraint rings raise at scheduling. non-trivial = a dependency "
        "pair whose written and read objects differ (slice/field/parent or through a net) in a design where the "
        "scheduler had a choice (>=2 blocks ready at once), or a constraint-ring case; distinct by design")
ASSUMPTIONS = [
  "bit-level read/write sets come from the harness IR (static over-approximation for variable indices), not from "
  "pymtl3's upblk_reads/upblk_writes",
  "CL/FL family: update_once blocks each calling at most one method (non-blocking CL or blocking FL through caller "
  "interfaces), M<M, U<M, M<U, U<U constraints and wire dependencies all consistent with one drawn legal order; the "
  "blocks log their own execution, so the order is observed directly; M==M constraints are not generated",
  "UpblkCyclicError is raised only after SimpleSchedulePass.dump_dag, which needs xdg-open; the harness replaces "
  "dump_dag by a no-op (no repo file touched)",
]
QUICK_S = 240
THOROUGH_S = 1200


def analyse(design):
  m = Model(design)
  edges = conn_edges(m)
  blocks = {}
  for ip, cn in m.insts.items():
    for b in m.classes[cn]["blocks"]:
      if b["kind"] == "comb":
        r, w = static_rw(m, ip, b["stmts"])
        blocks[(ip, b["name"])] = (r, w, reach(w, edges))
  deps = []       # (A, B, via_net, differing_objects)
  for a, (ra, wa, rea) in blocks.items():
    for b, (rb, wb, reb) in blocks.items():
      if a == b: continue
      direct = wa & rb
      vianet = (rea - wa) & rb
      if direct or vianet:
        deps.append((a, b, bool(vianet and not direct)))
  uu = []
  for ip, cn in m.insts.items():
    for x, y in m.classes[cn].get("uu", []):
      uu.append(((ip, x), (ip, y)))
  return m, blocks, deps, uu


def partial_objects(design):
  """does any comb block write or read a slice / field (so that reader and writer objects can differ)?"""
  s = repr(design)
  return "'sl': [" in s or "'fld': ['" in s


def check_pass(design, seq2, refs, which, rseed, info):
  m, blocks, deps, uu = info
  s = rtl_sim.Sim(design)
  stage = "elaborate"
  try:
    s.elaborate()
    stage = "apply"
    s.apply(which, rseed=rseed)
    top = s.top
    rec = rtl_sim.OrderRecorder(top)
    nets = set(rec.net_labels)
    stage = "eval1"
    s.set_inputs(seq2[0])
    calls = rec.record(s.eval_comb)
    # (1) exactly once
    cnt = {}
    for c in calls: cnt[c] = cnt.get(c, 0) + 1
    for key in blocks:
      lab = ("blk", key[0], key[1])
      if cnt.get(lab, 0) != 1:
        return (f"{which}:block_not_called_exactly_once", f"{lab} called {cnt.get(lab, 0)} times; order={calls}")
    for lab in nets:
      if cnt.get(lab, 0) != 1:
        return (f"{which}:netblock_not_called_exactly_once", f"{lab} called {cnt.get(lab, 0)} times")
    pos = {c: i for i, c in enumerate(calls)}
    # (2) bit-level dependencies
    for a, b, via in deps:
      if pos[("blk",) + a] > pos[("blk",) + b]:
        return (f"{which}:reader_before_writer", f"{b} (reads) ran before {a} (writes), via_net={via}; order={calls}")
    # (4) explicit constraints
    for a, b in uu:
      if pos[("blk",) + a] > pos[("blk",) + b]:
        return (f"{which}:explicit_constraint_violated", f"U{a} < U{b} but order={calls}")
    # (3) value form on a second evaluation with other inputs
    stage = "eval2"
    s1, s2 = refs
    bad = []

    def on_call(label):
      if label[0] != "blk": return
      r, w, _ = blocks.get((label[1], label[2]), (None, None, None))
      if r is None: return
      keys = {k for k, _ in r}
      for key in keys:
        old, new = s1[key], s2[key]
        if old == new: continue
        obj = top
        if key[0]:
          obj = rtl_sim.sig_of(obj, key[0])
        cur = int(rtl_sim.sig_of(obj, key[1]).to_bits())
        for (k2, bit) in r:
          if k2 == key and ((old >> bit) & 1) != ((new >> bit) & 1) and ((cur >> bit) & 1) != ((new >> bit) & 1):
            bad.append((label, key, bit)); return
    rec.on_call = on_call
    s.set_inputs(seq2[1])
    rec.record(s.eval_comb)
    if bad:
      return (f"{which}:stale_read", f"{bad[0][0]} read {bad[0][1]} bit {bad[0][2]} before it was updated")
    info_out = {"choice": False}
    return None
  except Exception as ex:
    import traceback
    tb = traceback.extract_tb(ex.__traceback__)
    inner = [f for f in tb if "/pymtl3/" in f.filename]
    if not inner: raise
    return (f"{which}:{stage}:exception:{type(ex).__name__}@{inner[-1].name}", f"{ex}"[:400])
  finally:
    s.close()


def scheduler_had_choice(design):
  """>=2 comb blocks with no dependency path between them (so a tie-break exists)"""
  m, blocks, deps, uu = analyse(design)
  if len(blocks) < 2: return False
  dep = {(a, b) for a, b, _ in deps}
  ks = list(blocks)
  for i, a in enumerate(ks):
    for b in ks[i + 1:]:
      if (a, b) not in dep and (b, a) not in dep: return True
  return False


def add_ring(design, k):
  """adds k mutually independent blocks to Top (each drives a fresh out port from a top input) and a ring of
  U<U constraints over them"""
  import copy
  d = copy.deepcopy(design)
  top = d["classes"]["Top"]
  ins = [(n, t) for n, dr, t in top["ports"] if dr == "in" and t[0] == "b"]
  names = []
  for i in range(k):
    pn = f"ringo{i}"
    if ins:
      n, t = ins[i % len(ins)]
      top["ports"].append([pn, "out", t])
      e = ["inv", ["sig", {"inst": "", "sig": n, "fld": [], "sl": None}]]
    else:
      top["ports"].append([pn, "out", ["b", 3]])
      e = ["const", 3, i]
    bn = f"ringb{i}"
    top["blocks"].append({"name": bn, "kind": "comb",
                          "stmts": [["assign", {"inst": "", "sig": pn, "fld": [], "sl": None}, e]]})
    names.append(bn)
  top.setdefault("uu", [])
  for i in range(k):
    top["uu"].append([names[i], names[(i + 1) % k]])
  return d


def add_false_loops(design, n):
  """adds n legal false combinational loops to Top (two blocks that read each other's signal, acyclic at bit level):
  cyclic groups that carry values and have to be scheduled next to the signal-free ring"""
  import copy
  d = copy.deepcopy(design)
  top = d["classes"]["Top"]
  R = lambda sig, sl=None: {"inst": "", "sig": sig, "fld": [], "sl": sl}
  ins = [(n_, t) for n_, dr, t in top["ports"] if dr == "in" and t[0] == "b" and t[1] >= 4 and "." not in n_ and "[" not in n_]
  for i in range(n):
    fx, fy = f"flx{i}", f"fly{i}"
    top["wires"] += [[fx, ["b", 8]], [fy, ["b", 8]]]
    src = ["sig", R(ins[i % len(ins)][0], [0, 4])] if ins else ["const", 4, 5 + i]
    top["blocks"].append({"name": f"fla{i}", "kind": "comb", "stmts": [["assign", R(fx, [0, 4]), src],
                                                                        ["assign", R(fx, [4, 8]), ["sig", R(fy, [0, 4])]]]})
    top["blocks"].append({"name": f"flb{i}", "kind": "comb", "stmts": [["assign", R(fy, [0, 4]), ["inv", ["sig", R(fx, [0, 4])]]],
                                                                        ["assign", R(fy, [4, 8]), ["const", 4, i]]]})
  return d


def check_ring(design, which, rseed):
  s = rtl_sim.Sim(design)
  try:
    try:
      s.elaborate()
    except Exception as ex:
      return (f"{which}:ring:elaborate_exception:{type(ex).__name__}", str(ex)[:300])
    try:
      s.apply(which, rseed=rseed)
    except Exception as ex:
      return None                                  # rejected with an error: fine
    return (f"{which}:constraint_ring_scheduled_silently", "a ring of U<U constraints without signals was scheduled")
  finally:
    s.close()


def judge(case):
  if case.get("cl"): return judge_cl(case)
  design = case["design"]
  if case.get("ring"):
    d2 = add_ring(design, case["ring"])
    if case.get("ring_loops"):
      # the passes that iterate cyclic groups (default, mamba) must still refuse the signal-free ring when the design
      # also holds legal value-carrying (false) loops, whichever group they meet first; the others reject any cycle
      d2 = add_false_loops(d2, case["ring_loops"])
    for i, p in enumerate(rtl_sim.PASSES):
      v = check_ring(d2, p, case["seeds"][i % 3])
      if v is not None: return v
    return None
  info = analyse(design)
  # two reference fixed points (no ticks in between: registers keep their initial value 0)
  m = info[0]
  snaps = []
  for cyc in case["seq"][:2]:
    for p, v in cyc["in"].items(): m.set_input(p, v)
    m.state[("", "reset")] = cyc.get("reset", 0)
    m.eval_comb(check_confluence=True)
    snaps.append(dict(m.state))
  for i, p in enumerate(rtl_sim.PASSES + ["simple"]):
    v = check_pass(design, case["seq"][:2], snaps, p, case["seeds"][i % 3] + i, info)
    if v is not None: return v
  return None


@st.composite
def cases(draw):
  design = draw(rtl_gen.designs(uu=True, ff=draw(st.booleans()), index_chain=3, ifcs=draw(st.booleans())))
  seq = draw(rtl_gen.input_seqs(design, ncycles=2))
  seeds = draw(st.lists(st.integers(0, 2 ** 20), min_size=3, max_size=3))
  ring = draw(st.sampled_from([0, 0, 0, 0, 2, 3, 4]))
  return {"design": design, "seq": seq, "seeds": seeds, "ring": ring, "ring_loops": draw(st.sampled_from([0, 0, 1, 2, 3])) if ring else 0}


def run_shard(ctx):
  @seed(ctx.hseed())
  @ctx.settings(ctx.n(640, 16000))
  @given(cases())
  def t(case):
    if ctx.out_of_time(): return
    ctx.count()
    for f_ in rtl_gen.features(case["design"]): ctx.label(f_)
    v = judge(case)
    if case["ring"]:
      ctx.label(f"constraint_ring_{case['ring']}")
      if case.get("ring_loops"): ctx.label("constraint_ring_next_to_false_loops")
      if v is None: ctx.nontriv(["ring", case["ring"], case["design"]])
    else:
      m, blocks, deps, uu = analyse(case["design"])
      if deps: ctx.label("has_dependency_pair")
      if any(via for _, _, via in deps): ctx.label("dependency_through_net")
      if uu: ctx.label("explicit_uu_constraints")
      po = partial_objects(case["design"])
      choice = scheduler_had_choice(case["design"])
      if choice: ctx.label("scheduler_had_choice")
      if v is None and deps and choice and (po or any(via for _, _, via in deps)):
        ctx.nontriv(case["design"])
    ctx.judge(case, v)
    if ctx.evaluations % 9 == 0:
      from vf.gen.rtl_render import Renderer
      ctx.sample({"source": Renderer(case["design"]).source("x")[:1200], "ring": case["ring"]})

  ctx.run(t, "c02")
  if ctx.violations: return

  @seed(ctx.hseed(1))
  @ctx.settings(ctx.n(800, 16000))
  @given(cl_cases())
  def tcl(case):
    if ctx.out_of_time(): return
    ctx.count()
    v = judge_cl(case)
    ctx.label("cl_family_fl" if case["fl"] else "cl_family_cl")
    kinds = {c[0] for c in case["cons"]}
    for k in kinds: ctx.label("cl_constraint_" + k)
    if v is None and (kinds & {"MM", "UM", "MU"}) and case["nb"] >= 3:
      ctx.nontriv(["cl", case["calls"], case["cons"], case["wires"], case["fl"]])
    ctx.judge(case, v)
    if ctx.evaluations % 97 == 0: ctx.sample({"cl_source": cl_source(case)[:1200]})
  ctx.run(tcl, "c02cl")


def replay(case):
  for _ in range(3):
    v = judge(case)
    if v is not None: return v
  return None


# ---------------------------------------------------------------------------------------------------
# CL / FL family: update_once blocks calling methods, M(x)<M(y), U<M, M<U, U<U and value dependencies
# ---------------------------------------------------------------------------------------------------

@st.composite
def cl_cases(draw):
  nb = draw(st.integers(2, 6))
  nm = draw(st.integers(1, 4))
  fl = draw(st.integers(0, 2)) == 0                   # blocking (FL, greenlet-wrapped) instead of non-blocking (CL)
  perm = draw(st.permutations(list(range(nb))))       # perm[k] = block at position k of one legal order
  pos = {b: k for k, b in enumerate(perm)}
  calls = {b: draw(st.one_of(st.none(), st.integers(0, nm - 1))) for b in range(nb)}
  callers = {m: [b for b in range(nb) if calls[b] == m] for m in range(nm)}
  # value dependencies through wires: writer earlier than reader in the intended order
  wires = []
  for _ in range(draw(st.integers(0, 3))):
    wb, rb = draw(st.integers(0, nb - 1)), draw(st.integers(0, nb - 1))
    if pos[wb] < pos[rb] and all(w != wb for w, _ in wires): wires.append((wb, rb))
  cons = []
  for _ in range(draw(st.integers(0, 6))):
    k = draw(st.sampled_from(["MM", "UM", "MU", "UU"]))
    if k == "MM":
      a, b = draw(st.integers(0, nm - 1)), draw(st.integers(0, nm - 1))
      if a != b and callers[a] and callers[b] and max(pos[x] for x in callers[a]) < min(pos[x] for x in callers[b]):
        cons.append(["MM", a, b])
    elif k == "UM":
      blk, m = draw(st.integers(0, nb - 1)), draw(st.integers(0, nm - 1))
      if callers[m] and blk not in callers[m] and pos[blk] < min(pos[x] for x in callers[m]): cons.append(["UM", blk, m])
    elif k == "MU":
      blk, m = draw(st.integers(0, nb - 1)), draw(st.integers(0, nm - 1))
      if callers[m] and blk not in callers[m] and max(pos[x] for x in callers[m]) < pos[blk]: cons.append(["MU", m, blk])
    else:
      a, b = draw(st.integers(0, nb - 1)), draw(st.integers(0, nb - 1))
      if pos[a] < pos[b]: cons.append(["UU", a, b])
  cons = [list(x) for x in {tuple(c) for c in cons}]
  cons.sort()
  order_decl = draw(st.permutations(list(range(nb))))  # definition order of the blocks in the source
  return {"cl": True, "nb": nb, "nm": nm, "fl": fl, "calls": [calls[b] for b in range(nb)], "wires": [list(w) for w in wires],
          "cons": cons, "decl": list(order_decl), "seeds": draw(st.lists(st.integers(0, 2 ** 20), min_size=3, max_size=3)),
          "ticks": draw(st.integers(1, 3))}


def cl_source(case):
  nb, nm, fl = case["nb"], case["nm"], case["fl"]
  L = ["from pymtl3 import *", "LOG = []", "", "class Store( Component ):", "  def construct( s ):"]
  mm = [c for c in case["cons"] if c[0] == "MM"]
  if mm:
    L.append("    s.add_constraints( " + ", ".join(f"M( s.m{a} ) < M( s.m{b} )" for _, a, b in mm) + " )")
  else:
    L.append("    pass")
  for m in range(nm):
    L.append("  @blocking" if fl else "  @non_blocking( lambda s: True )")
    L.append(f"  def m{m}( s, v ):")
    L.append(f"    LOG.append( ('m', {m}) )")
  L += ["", "class Top( Component ):", "  def construct( s ):", "    s.st = Store()"]
  for i, (wb, rb) in enumerate(case["wires"]):
    L.append(f"    s.w{i} = Wire( Bits8 )")
  for m in range(nm):
    L.append(f"    s.c{m} = {'CallerIfcFL' if fl else 'CallerIfcCL'}()")
    L.append(f"    s.c{m} //= s.st.m{m}")
  for b in case["decl"]:
    L.append("    @update_once")
    L.append(f"    def blk{b}():")
    L.append(f"      LOG.append( ('b', {b}) )")
    for i, (wb, rb) in enumerate(case["wires"]):
      if rb == b: L.append(f"      t{i} = s.w{i} + 1")
    for i, (wb, rb) in enumerate(case["wires"]):
      if wb == b: L.append(f"      s.w{i} @= {b + 1}")
    m = case["calls"][b]
    if m is not None:
      if fl: L.append(f"      s.c{m}( {b} )")
      else:
        L.append(f"      if s.c{m}.rdy():")
        L.append(f"        s.c{m}( {b} )")
  other = [c for c in case["cons"] if c[0] != "MM"]
  for c in other:
    if c[0] == "UM": L.append(f"    s.add_constraints( U( blk{c[1]} ) < M( s.st.m{c[2]} ) )")
    elif c[0] == "MU": L.append(f"    s.add_constraints( M( s.st.m{c[1]} ) < U( blk{c[2]} ) )")
    else: L.append(f"    s.add_constraints( U( blk{c[1]} ) < U( blk{c[2]} ) )")
  return "\n".join(L) + "\n"


def judge_cl(case):
  import hashlib, importlib.util, os, sys
  rtl_sim.patch_pymtl3()
  src = cl_source(case)
  modname = f"vfc02cl_{os.getpid()}_{hashlib.sha1(src.encode()).hexdigest()[:10]}"
  path = os.path.join(os.getcwd(), modname + ".py")
  with open(path, "w") as f: f.write(src)
  spec = importlib.util.spec_from_file_location(modname, path)
  mod = importlib.util.module_from_spec(spec); sys.modules[modname] = mod
  try:
    spec.loader.exec_module(mod)
    callers = {m: [b for b in range(case["nb"]) if case["calls"][b] == m] for m in range(case["nm"])}
    for pi, which in enumerate(rtl_sim.PASSES + ["simple"]):
      if case["fl"] and which == "heutopo": continue      # HeuristicTopoPass has no support for greenlet-wrapped blocks
      top = mod.Top()
      try:
        top.elaborate()
        random.seed(case["seeds"][pi % 3] + pi)
        from pymtl3.passes.PassGroups import DefaultPassGroup, SimpleSimPass
        from pymtl3.passes.mamba.PassGroups import HeuTopoUnrollSim, Mamba2020, UnrollSim
        P = {"default": DefaultPassGroup(), "simple": SimpleSimPass(), "heutopo": HeuTopoUnrollSim(print_line_trace=False),
             "mamba": Mamba2020(print_line_trace=False), "unroll": UnrollSim(print_line_trace=False)}[which]
        top.apply(P)
        for t in range(case["ticks"]):
          del mod.LOG[:]
          top.sim_tick()
          log = list(mod.LOG)
          bpos = {}
          for k, (kind, x) in enumerate(log):
            if kind == "b":
              if x in bpos: return (f"cl:{which}:block_ran_twice", f"tick {t}: blk{x}; log={log}")
              bpos[x] = k
          for b in range(case["nb"]):
            if b not in bpos: return (f"cl:{which}:block_did_not_run", f"tick {t}: blk{b}; log={log}")
          for wb, rb in case["wires"]:
            if bpos[wb] > bpos[rb]: return (f"cl:{which}:reader_before_writer", f"tick {t}: blk{rb} read a wire before blk{wb} wrote it; log={log}")
          for c in case["cons"]:
            if c[0] == "MM":
              if max(bpos[x] for x in callers[c[1]]) > min(bpos[x] for x in callers[c[2]]):
                return (f"cl:{which}:method_constraint_violated", f"tick {t}: M(m{c[1]}) < M(m{c[2]}); log={log}")
            elif c[0] == "UM":
              if bpos[c[1]] > min(bpos[x] for x in callers[c[2]]):
                return (f"cl:{which}:U_before_M_violated", f"tick {t}: U(blk{c[1]}) < M(m{c[2]}); log={log}")
            elif c[0] == "MU":
              if max(bpos[x] for x in callers[c[1]]) > bpos[c[2]]:
                return (f"cl:{which}:M_before_U_violated", f"tick {t}: M(m{c[1]}) < U(blk{c[2]}); log={log}")
            else:
              if bpos[c[1]] > bpos[c[2]]:
                return (f"cl:{which}:explicit_constraint_violated", f"tick {t}: U(blk{c[1]}) < U(blk{c[2]}); log={log}")
      except Exception as ex:
        import traceback
        tb = traceback.extract_tb(ex.__traceback__)
        inner = [f for f in tb if "/pymtl3/" in f.filename]
        if not inner: raise
        return (f"cl:{which}:exception:{type(ex).__name__}@{inner[-1].name}", f"{ex}"[:300])
    return None
  finally:
    sys.modules.pop(modname, None)
    try: os.remove(path)
    except OSError: pass
