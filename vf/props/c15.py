"""C15 -- replacing a component yields the same design as building it that way."""
import copy

from hypothesis import given, seed, strategies as st

from vf.gen import rtl_gen, rtl_sim
from vf.gen.rtl_render import Renderer, load_design
from vf.ref.rtl_eval import Model, type_width

ID = "C15"
LEVEL = "exploration"
RULE = ("case = (generated parent design with child slots at depth 1-2, a family of port-compatible replacement classes "
        "with different internals (nets, comb/ff/update_once blocks, grandchildren, constants, U-U and WR-U constraints), "
        "a history of 1-4 replace_component / replace_component_with_obj calls on slots at any depth, repeated on the same "
        "slot, check=True/False, inputs); after every call: metadata of the mutated design, normalised by name "
        "(components, signals, nets with writers, adjacency, update blocks with read/write/call sets, ff/once sets, "
        "explicit constraints) equals that of a design built from scratch with the replacement in place; both simulate "
        "identically to the reference; no object of a removed component (identity) and no '<deleted>' name is reachable "
        "from the top's metadata containers. non-trivial = history with >=2 replacements one of which hits depth 2, and "
        "a removed class carried constraints, constants, an update_once block or grandchildren; distinct by case")
ASSUMPTIONS = [
  "two families: RTL designs from the E1 grammar (Interface bundles and lists of components included: a replaced slot may be a list element, "
  "the replacement carries the same interface instances), and a CL family (slots filled with method-only stores with M "
  "constraints, components with internal caller/callee method nets, block-less structural wrappers that constrain their "
  "children's blocks)",
  "'built from scratch' = the same IR with the slot's class substituted (per-instance specialisation of the parent class), "
  "rendered and elaborated normally",
]
QUICK_S = 240
THOROUGH_S = 1200


def meta(top):
  return meta_base(top)


def meta_base(top):
  """all queryable design metadata, normalised by name"""
  from pymtl3.dsl.Connectable import Const, Signal
  def nm(x):
    if isinstance(x, Const): return ("<const>", str(x._dsl.const))
    return repr(x)
  m = {}
  m["components"] = sorted(repr(c) for c in top.get_all_components())
  # name-derived metadata of every named object: level, parent, host component (signals: top-level signal)
  def lvl(o):
    out = [repr(o), getattr(o._dsl, "level", None), repr(o.get_parent_object()) if o is not top else None]
    if isinstance(o, Signal): out += [repr(o.get_host_component()), repr(o.get_top_level_signal())]
    return tuple(map(str, out))
  m["levels"] = sorted(lvl(o) for o in top.get_all_object_filter(lambda x: True))
  m["signals"] = sorted(repr(x) for x in top.get_all_object_filter(lambda x: isinstance(x, Signal)))
  m["nets"] = sorted((str(nm(w)) if w is not None else "None", sorted(str(nm(x)) for x in net))
                     for w, net in top.get_all_value_nets())
  adj = top.get_signal_adjacency_dict()
  m["adjacency"] = sorted({tuple(sorted((str(nm(u)), str(nm(v))))) for u, vs in adj.items() for v in vs})
  rd, wr, ca = top.get_all_upblk_metadata()
  def bn(b): return repr(top.get_update_block_host_component(b)) + ":" + b.__name__
  m["blocks"] = sorted(bn(b) for b in top.get_all_update_blocks())
  m["reads"] = sorted((bn(b), sorted(repr(x) for x in v)) for b, v in rd.items())
  m["writes"] = sorted((bn(b), sorted(repr(x) for x in v)) for b, v in wr.items())
  m["calls"] = sorted((bn(b), sorted(getattr(x, "__name__", repr(x)) for x in v)) for b, v in ca.items())
  m["ff"] = sorted(bn(b) for b in top.get_all_update_ff())
  m["once"] = sorted(bn(b) for b in top.get_all_update_once())
  uu, rdu, wru, mc = top.get_all_explicit_constraints()
  m["U_U"] = sorted((bn(a), bn(b)) for a, b in uu)
  m["RD_U"] = sorted((repr(k), sorted((s_, bn(b)) for s_, b in v)) for k, v in rdu.items() if v)
  m["WR_U"] = sorted((repr(k), sorted((s_, bn(b)) for s_, b in v)) for k, v in wru.items() if v)
  def mn(x):
    return repr(x) if hasattr(x, "_dsl") else (bn(x) if x in top.get_all_update_blocks() else getattr(x, "__name__", "?"))
  m["M"] = sorted((mn(a), mn(b), bool(eq)) for a, b, eq in mc)
  return m


def removed_objects(comp):
  """identity set of everything that belongs to a component subtree"""
  from pymtl3.dsl import Component
  objs = list(comp._collect_all_single(lambda x: True))
  ids = {id(o): o for o in objs}
  for c in objs:
    if isinstance(c, Component):
      for b in c.get_update_blocks(): ids[id(b)] = b
      for k in getattr(c._dsl, "consts", ()): ids[id(k)] = k
  return ids


def sweep(top, removed):
  """look for removed objects / '<deleted>' names in the metadata containers of top and of all live components"""
  from pymtl3.dsl.NamedObject import NamedObject
  bad = []

  def visit(x, where, depth=0):
    if depth > 6: return
    if id(x) in removed:
      bad.append((where, repr(x))); return
    if isinstance(x, NamedObject):
      try:
        if repr(x).startswith("<deleted>"): bad.append((where, repr(x)))
      except Exception: pass
      return
    if isinstance(x, dict):
      for k, v in x.items():
        visit(k, where, depth + 1); visit(v, where, depth + 1)
    elif isinstance(x, (list, tuple, set, frozenset)):
      for y in x: visit(y, where, depth + 1)
  comps = list(top.get_all_components())
  for c in comps:
    for attr, val in vars(c._dsl).items():
      if attr in ("args", "kwargs", "param_tree"): continue
      visit(val, f"{repr(c)}._dsl.{attr}")
  for o in top.get_all_object_filter(lambda x: True):
    if id(o) in removed: bad.append(("all_named_objects", repr(o)))
  return bad


def specialise(design, path, new_cname):
  """IR in which the instance at `path` (list of instance names from Top) has class new_cname; classes along the path
  are cloned so that other instances are unaffected"""
  d = copy.deepcopy(design)
  cur = "Top"
  for depth, iname in enumerate(path):
    c = d["classes"][cur]
    for ch in c["children"]:
      if ch[0] == iname:
        if depth == len(path) - 1:
          ch[1] = new_cname
        else:
          clone = f"{ch[1]}_sp{len(d['classes'])}"
          d["classes"][clone] = copy.deepcopy(d["classes"][ch[1]])
          ch[1] = clone
          cur = clone
        break
    else:
      raise AssertionError("bad path")
  return d


def slots(design):
  """all instance paths (lists) in the design"""
  out = []

  def rec(cn, path):
    for iname, ccn in design["classes"][cn]["children"]:
      out.append((path + [iname], ccn))
      rec(ccn, path + [iname])
  rec("Top", [])
  return out


def class_at(design, path):
  cn = "Top"
  for iname in path:
    cn = dict((a, b) for a, b in design["classes"][cn]["children"])[iname]
  return cn


def has_once(design):
  return any(b["kind"] == "once" for c in design["classes"].values() for b in c["blocks"])


def simulate_and_compare(top, ftop, design, seq):
  """simulate the mutated and the from-scratch design side by side (DefaultPassGroup); without update_once
  blocks both are additionally compared with the reference of `design`"""
  from pymtl3.passes.PassGroups import DefaultPassGroup
  from pymtl3.datatypes import Bits
  m = Model(design)
  names = sorted(m.sigtype)
  top.apply(DefaultPassGroup()); ftop.apply(DefaultPassGroup())
  once = has_once_reachable(design)

  def snap(t_):
    out = {}
    for ip, n in names:
      obj = t_
      if ip:
        obj = rtl_sim.sig_of(obj, ip)
      out[(ip + "." if ip else "") + n] = int(rtl_sim.sig_of(obj, n).to_bits())
    return out
  for t, cyc in enumerate(seq):
    for tp in (top, ftop):
      for p, v in cyc["in"].items():
        cur = rtl_sim.sig_of(tp, p); cur @= Bits(cur.nbits, v)
      tp.reset @= cyc.get("reset", 0)
    for p, v in cyc["in"].items(): m.set_input(p, v)
    m.state[("", "reset")] = cyc.get("reset", 0)
    if not once:
      top.sim_eval_combinational(); ftop.sim_eval_combinational(); m.eval_comb(check_confluence=True)
      a, b, exp = snap(top), snap(ftop), m.snapshot()
      if a != b:
        dd = rtl_sim.diff(b, a)
        return ("sim:mutated_differs_from_fresh:eval", f"cycle {t}: {[(k, a.get(k), b[k]) for k in dd[:4]]}")
      if a != exp:
        dd = rtl_sim.diff(exp, a)
        return ("sim:differs_from_reference:eval", f"cycle {t}: {[(k, a.get(k), exp[k]) for k in dd[:4]]}")
    top.sim_tick(); ftop.sim_tick()
    a, b = snap(top), snap(ftop)
    if a != b:
      dd = rtl_sim.diff(b, a)
      return ("sim:mutated_differs_from_fresh:tick", f"cycle {t}: {[(k, a.get(k), b[k]) for k in dd[:4]]}")
    if not once:
      m.tick(); exp = m.snapshot()
      if a != exp:
        dd = rtl_sim.diff(exp, a)
        return ("sim:differs_from_reference:tick", f"cycle {t}: {[(k, a.get(k), exp[k]) for k in dd[:4]]}")
  return None


def has_once_reachable(design):
  m = Model(design)
  return any(b["kind"] == "once" for cn in set(m.insts.values()) for b in design["classes"][cn]["blocks"])


def judge(case, stats=None):
  if case.get("cl"): return judge_cl(case)
  rtl_sim.patch_pymtl3()
  base = case["design"]
  cur = copy.deepcopy(base)
  for k, v in case["family"].items(): cur["classes"].setdefault(k, v)
  stage = "build"
  cleanups = []
  try:
    # mutated design: elaborate the base, then apply the history
    # all classes (base + family) go into one module so that replacement classes can be looked up by name
    mod_classes, src, cl = _load_all(cur, sorted(cur["classes"]))
    cleanups.append(cl)
    top = mod_classes["Top"]()
    try:
      top.elaborate()
    except Exception as ex:
      return _exc("elaborate_base", ex)
    removed_total = {}
    for step, (path, newc, with_obj, check) in enumerate(case["history"]):
      stage = f"replace{step}"
      obj = top
      for iname in path: obj = rtl_sim.sig_of(obj, iname)
      removed = removed_objects(obj)
      try:
        if with_obj: top.replace_component_with_obj(obj, mod_classes[newc](), check=check)
        else: top.replace_component(obj, mod_classes[newc], check=check)
      except Exception as ex:
        return _exc(f"replace_step", ex, f"step {step} path {path} -> {newc}")
      removed_total.update(removed)
      cur = specialise(cur, path, newc)
      # from-scratch build of the current slot map
      FTop, fsrc, fcl = _load_all(cur, None)
      try:
        ftop = FTop["Top"]()
        ftop.elaborate()
        try:
          ma = meta(top)
        except Exception as ex:
          return _exc("meta_query_on_mutated_design", ex, f"after step {step} ({'/'.join(path)} -> {newc})")
        mb = meta(ftop)
        for key in ma:
          if ma[key] != mb[key]:
            a, b = ma[key], mb[key]
            extra = [x for x in a if x not in b][:3]; missing = [x for x in b if x not in a][:3]
            return (f"meta:{key}", f"after step {step} ({'/'.join(path)} -> {newc}): only in mutated {extra}; only in fresh {missing}")
        bad = sweep(top, removed_total)
        if bad:
          return (f"stale:{bad[0][0].split('.')[-1]}", f"after step {step}: {bad[:3]}")
      finally:
        fcl()
    stage = "simulate"
    FTop, fsrc, fcl = _load_all(cur, None)
    cleanups.append(fcl)
    ftop = FTop["Top"](); ftop.elaborate()
    v = simulate_and_compare(top, ftop, cur, case["seq"])
    if v is not None: return v
    if stats is not None:
      stats["depth2"] = any(len(p) >= 2 for p, _, _, _ in case["history"])
    return None
  finally:
    for c in cleanups: c()


def _exc(stage, ex, extra=""):
  import traceback
  tb = traceback.extract_tb(ex.__traceback__)
  inner = [f for f in tb if "/pymtl3/" in f.filename]
  if not inner: raise ex
  return (f"{stage}:exception:{type(ex).__name__}@{inner[-1].name}", f"{extra} {ex}"[:400])


def _load_all(design, extra_classes):
  """renders every class of `design` (reachable from Top or listed) into one module; returns ({name: class}, src, cleanup)"""
  import hashlib, importlib.util, os, sys, itertools
  r = Renderer(design)
  tag = f"k{next(rtl_sim_uid)}"
  names = []
  seen = set()

  def visit(cn):
    if cn in seen: return
    seen.add(cn)
    for _, ccn in design["classes"][cn]["children"]: visit(ccn)
    names.append(cn)
  for cn in (extra_classes or ["Top"]):
    visit(cn)
  if "Top" not in seen: visit("Top")
  cls_src = [r.cls(cn, design["classes"][cn], tag) for cn in names]
  ifc_src = r.ifc_source(tag)
  src = "from pymtl3 import *\n\n" + "\n".join(r.struct_src) + "\n" + "\n".join(ifc_src) + "\n" + "\n".join(cls_src)
  modname = f"vfc15_{os.getpid()}_{tag}_{hashlib.sha1(src.encode()).hexdigest()[:8]}"
  path = os.path.join(os.getcwd(), modname + ".py")
  with open(path, "w") as f: f.write(src)
  spec = importlib.util.spec_from_file_location(modname, path)
  mod = importlib.util.module_from_spec(spec)
  sys.modules[modname] = mod

  def cleanup():
    sys.modules.pop(modname, None)
    try: os.remove(path)
    except OSError: pass
  try:
    spec.loader.exec_module(mod)
  except BaseException:
    cleanup(); raise
  return {cn: getattr(mod, f"{cn}_{tag}") for cn in names}, src, cleanup


import itertools as _it
rtl_sim_uid = _it.count()


@st.composite
def cases(draw):
  design = draw(rtl_gen.designs(min_depth=draw(st.sampled_from([1, 2, 2])), max_depth=2, child_bias=1, max_steps=4, uu=True, ifcs=draw(st.booleans())))
  sl = slots(design)
  if not sl:
    # force one child
    design = draw(rtl_gen.designs(min_depth=1, max_depth=1, child_bias=3, max_steps=4))
    sl = slots(design)
  family = {}
  history = []
  cur = design
  nrep = draw(st.integers(1, 4)) if sl else 0
  for i in range(nrep):
    sl = slots(cur)
    if not sl: break
    # prefer deep slots and already replaced slots
    path, ccn = draw(st.sampled_from(sl))
    if history and draw(st.integers(0, 2)) == 0:
      hp = history[draw(st.integers(0, len(history) - 1))][0]
      if any(p == hp for p, _ in sl): path = hp; ccn = class_at(cur, path)
    oldc = cur["classes"][ccn] if ccn in cur["classes"] else family[ccn]
    ports = oldc["ports"]
    pool = {k: v for k, v in design["classes"].items() if k != "Top" and not v["children"] and k != ccn}
    newc = f"R{i}"
    opts = dict(rtl_gen.DEFAULT_OPTS); opts.update(max_steps=3, uu=True)
    family[newc] = rtl_gen.build_variant(draw, newc, copy.deepcopy(ports), opts, pool, depth=1 if pool else 0,
                                         rdwr=True, once=draw(st.integers(0, 3)) == 0)
    family[newc]["ifc_insts"] = copy.deepcopy(oldc.get("ifc_insts", []))     # same interface bundles, same port list
    cur = copy.deepcopy(cur); cur["classes"][newc] = family[newc]
    history.append((path, newc, draw(st.booleans()), draw(st.booleans())))
    cur = specialise(cur, path, newc)
  seq = draw(rtl_gen.input_seqs(design, ncycles=draw(st.integers(2, 4))))
  return {"design": design, "family": family, "history": [list(h) for h in history], "seq": seq}


def carried(case):
  """did a removed class carry constraints / constants / once / grandchildren?"""
  cur = copy.deepcopy(case["design"])
  for k, v in case["family"].items(): cur["classes"].setdefault(k, v)
  flag = False
  for path, newc, _, _ in case["history"]:
    old = cur["classes"][class_at(cur, path)]
    if old.get("uu") or old.get("rdwr") or old["children"] or any(b["kind"] == "once" for b in old["blocks"]) or \
       any(isinstance(src, list) for _, src in old["conns"]):
      flag = True
    cur = specialise(cur, path, newc)
  return flag


def run_shard(ctx):
  @seed(ctx.hseed())
  @ctx.settings(ctx.n(1200, 24000))
  @given(cases())
  def t(case):
    if ctx.out_of_time(): return
    if not case["history"]: return
    ctx.count()
    for f_ in rtl_gen.features(case["design"]): ctx.label(f_)
    stats = {}
    v = judge(case, stats)
    ctx.label(f"history_len_{len(case['history'])}")
    if stats.get("depth2"): ctx.label("depth2_slot")
    c = carried(case)
    if c: ctx.label("removed_class_carried_extras")
    if any(b["kind"] == "once" for f in case["family"].values() for b in f["blocks"]): ctx.label("family_has_update_once")
    if any(f.get("rdwr") for f in case["family"].values()): ctx.label("family_has_WR_U")
    if v is None and len(case["history"]) >= 2 and stats.get("depth2") and c:
      ctx.nontriv([case["design"], case["family"], case["history"]])
    ctx.judge(case, v)
    if ctx.evaluations % 13 == 0:
      ctx.sample({"history": case["history"], "family": sorted(case["family"]), "slots": [p for p, _ in slots(case["design"])]})

  ctx.run(t, "c15")
  if ctx.violations: return

  @seed(ctx.hseed(1))
  @ctx.settings(ctx.n(480, 12000))
  @given(cl_cases())
  def tcl(case):
    if ctx.out_of_time(): return
    ctx.count()
    v = judge_cl(case)
    ctx.label("cl_family")
    if any(h[0] == "st" for h in case["history"]): ctx.label("cl_method_only_slot_at_depth_2")
    if any(h[2] in ("VCL", "VStruct") for h in case["history"]) or any(x in ("VCL", "VStruct") for x in case["x"]):
      ctx.label("cl_internal_method_nets_or_blockless_constraints")
    if v is None and len(case["history"]) >= 2 and any(h[0] == "st" for h in case["history"]):
      ctx.nontriv(["cl", case["x"], case["st"], case["history"]])
    ctx.judge(case, v)
    if ctx.evaluations % 53 == 0: ctx.sample({"cl_slots": case["x"], "store": case["st"], "history": case["history"]})
  ctx.run(tcl, "c15cl")


def replay(case):
  for _ in range(3):
    v = judge(case)
    if v is not None: return v
  return None


# ---------------------------------------------------------------------------------------------------
# CL family: slots filled with method-port / cycle-level components (histories of replacements)
# ---------------------------------------------------------------------------------------------------

CL_LIB = '''
from pymtl3 import *
from pymtl3.dsl import CalleePort, CallerPort, method_port

class StoreBypass( Component ):
  @method_port
  def put( s, v ): s.val = v
  @method_port
  def get( s ): return s.val
  def construct( s ):
    s.val = 0
    s.add_constraints( M( s.put ) < M( s.get ) )

class StorePipe( Component ):
  @method_port
  def put( s, v ): s.val = v
  @method_port
  def get( s ): return s.val
  def construct( s ):
    s.val = 0
    s.add_constraints( M( s.get ) < M( s.put ) )

class StoreCount( Component ):
  @method_port
  def put( s, v ): s.val = (v + 1) & 0xff
  @method_port
  def get( s ): return s.val
  def construct( s ):
    s.val = 0
    s.add_constraints( M( s.put ) < M( s.get ) )

class VPass( Component ):
  def construct( s ):
    s.in_ = InPort( Bits8 ); s.out = OutPort( Bits8 )
    @update
    def up(): s.out @= s.in_ + 1

class VNet( Component ):
  def construct( s ):
    s.in_ = InPort( Bits8 ); s.out = OutPort( Bits8 )
    s.out //= s.in_

class VReg( Component ):
  def construct( s ):
    s.in_ = InPort( Bits8 ); s.out = OutPort( Bits8 )
    @update_ff
    def ff(): s.out <<= s.in_

class VCL( Component ):
  """only value ports cross the boundary; inside: a method-only store driven through caller ports"""
  def construct( s ):
    s.in_ = InPort( Bits8 ); s.out = OutPort( Bits8 )
    s.st  = StoreBypass()
    s.put = CallerPort(); s.get = CallerPort()
    s.put //= s.st.put
    s.get //= s.st.get
    @update_once
    def wr(): s.put( int(s.in_) )
    @update_once
    def rd(): s.out @= s.get()

class VStruct( Component ):
  """no update block of its own, but it orders the blocks of its children"""
  def construct( s ):
    s.in_ = InPort( Bits8 ); s.out = OutPort( Bits8 )
    s.a = VPass(); s.b = VPass()
    s.a.in_ //= s.in_; s.b.in_ //= s.a.out; s.out //= s.b.out
    s.add_constraints( U( list(s.a.get_update_blocks())[0] ) < U( list(s.b.get_update_blocks())[0] ) )

class Wrap( Component ):
  def construct( s, St ):
    s.put = CalleePort(); s.get = CalleePort()
    s.st  = St()
    s.st.put //= s.put
    s.st.get //= s.get

class Top( Component ):
  def construct( s, X, St, nx ):
    s.in_ = InPort( Bits8 ); s.out = OutPort( Bits8 ); s.out2 = OutPort( Bits8 )
    s.xs = [ X[i]() for i in range(nx) ]
    s.xs[0].in_ //= s.in_
    for i in range(1, nx): s.xs[i].in_ //= s.xs[i-1].out
    s.out //= s.xs[nx-1].out
    s.w = Wrap( St )
    @update_once
    def up_put(): s.w.put( int(s.in_) )
    @update_once
    def up_get(): s.out2 @= s.w.get()
'''

V_FAMILY = ["VPass", "VNet", "VReg", "VCL", "VStruct"]
ST_FAMILY = ["StoreBypass", "StorePipe", "StoreCount"]


@st.composite
def cl_cases(draw):
  nx = draw(st.integers(1, 3))
  init_x = [draw(st.sampled_from(V_FAMILY)) for _ in range(nx)]
  init_st = draw(st.sampled_from(ST_FAMILY))
  hist = []
  for _ in range(draw(st.integers(1, 5))):
    if draw(st.integers(0, 2)) == 0:
      hist.append(["st", 0, draw(st.sampled_from(ST_FAMILY)), draw(st.booleans()), draw(st.booleans())])
    else:
      hist.append(["x", draw(st.integers(0, nx - 1)), draw(st.sampled_from(V_FAMILY)), draw(st.booleans()), draw(st.booleans())])
  ins = [draw(st.integers(0, 255)) for _ in range(draw(st.integers(2, 5)))]
  return {"cl": True, "nx": nx, "x": init_x, "st": init_st, "history": hist, "ins": ins}


def meta_cl(top):
  m = meta_base(top)
  def nm(x):
    try: return repr(x) if hasattr(x, "_dsl") else getattr(x, "__name__", str(type(x)))
    except Exception: return "?"
  m["method_nets"] = sorted((nm(w) if w is not None else "None", sorted(nm(x) for x in net)) for w, net in top.get_all_method_nets())
  return m


def judge_cl(case):
  import hashlib, importlib.util, os, sys
  rtl_sim.patch_pymtl3()
  modname = f"vfc15cl_{os.getpid()}"
  path = os.path.join(os.getcwd(), modname + ".py")
  with open(path, "w") as f: f.write(CL_LIB)
  spec = importlib.util.spec_from_file_location(modname, path)
  mod = importlib.util.module_from_spec(spec); sys.modules[modname] = mod
  try:
    spec.loader.exec_module(mod)
    from pymtl3.passes.PassGroups import DefaultPassGroup
    from pymtl3.datatypes import Bits

    def build(xs, stn):
      t = mod.Top([getattr(mod, c) for c in xs], getattr(mod, stn), len(xs))
      t.elaborate()
      return t
    xs, stn = list(case["x"]), case["st"]
    try:
      top = build(xs, stn)
    except Exception as ex:
      return _exc("cl:elaborate_base", ex)
    removed_total = {}
    for step, (slot, idx, newc, with_obj, check) in enumerate(case["history"]):
      obj = top.xs[idx] if slot == "x" else top.w.st
      removed = removed_objects(obj)
      cls = getattr(mod, newc)
      try:
        if with_obj: top.replace_component_with_obj(obj, cls(), check=check)
        else: top.replace_component(obj, cls, check=check)
      except Exception as ex:
        return _exc("cl:replace_step", ex, f"step {step} {slot}[{idx}] -> {newc}")
      removed_total.update(removed)
      if slot == "x": xs[idx] = newc
      else: stn = newc
      ftop = build(xs, stn)
      try:
        ma = meta_cl(top)
      except Exception as ex:
        return _exc("cl:meta_query_on_mutated_design", ex, f"after step {step} ({slot}[{idx}] -> {newc})")
      mb = meta_cl(ftop)
      for key in ma:
        if ma[key] != mb[key]:
          extra = [x for x in ma[key] if x not in mb[key]][:3]; missing = [x for x in mb[key] if x not in ma[key]][:3]
          return (f"cl:meta:{key}", f"after step {step} ({slot}[{idx}] -> {newc}): only in mutated {extra}; only in fresh {missing}")
      bad = sweep(top, removed_total)
      if bad: return (f"cl:stale:{bad[0][0].split('.')[-1]}", f"after step {step}: {bad[:3]}")
    ftop = build(xs, stn)
    try:
      top.apply(DefaultPassGroup()); ftop.apply(DefaultPassGroup())
      for t, v in enumerate(case["ins"]):
        for tp in (top, ftop): tp.in_ @= Bits(8, v)
        top.sim_tick(); ftop.sim_tick()
        a = (int(top.out), int(top.out2)); b = (int(ftop.out), int(ftop.out2))
        if a != b: return ("cl:sim:mutated_differs_from_fresh", f"tick {t}: (out, out2) = {a} vs {b}")
    except Exception as ex:
      return _exc("cl:simulate", ex)
    return None
  finally:
    sys.modules.pop(modname, None)
    try: os.remove(path)
    except OSError: pass
