"""C11 -- combinational cycles settle on a fixed point or are reported."""
import signal

from hypothesis import given, seed, strategies as st

from vf.gen import rtl_sim
from vf.ref.rtl_eval import Model, IRError, type_width
from vf.strategies import uvalue

ID = "C11"
LEVEL = "exploration"
RULE = ("case = (cyclic block graph built from templates, inputs per cycle): 'false' loops (block graph cyclic, bit graph "
        "acyclic: a stage chain alternating between 2-3 blocks through disjoint slices / struct fields / connections / "
        "child components, optionally with a second, wider carrier written whole from a second input and read through a slice; or a ring of 10-14 blocks with if/else whose stages shift the value out), 'ring' true loops S_i = F_i(S_{i-1}) whose composed map G is classified by brute force over "
        "the <=3-bit loop value (no fixed point -> must raise; otherwise only 'returned => stable': a ring with fixed "
        "points may legitimately be reported because several in-flight values can rotate forever under a sequential "
        "sweep), and rings containing an update_once block; run under DefaultPassGroup and Mamba2020 "
        "(cyclic-capable) and Simple/HeuTopo/Unroll (must reject). Obligations: on return every non-ff block re-run "
        "alone changes nothing; false loops equal the reference fixed point; must-raise cases raise UpblkCyclicError; "
        "a watchdog of 20 s CPU time (ITIMER_PROF) turns a hang into a violation. non-trivial = SCC of >=2 blocks whose carrying signals "
        "are slices/fields/nets, or a divergent ring whose oscillating part has a stable sibling; distinct by design")
ASSUMPTIONS = [
  "ring classification is by exhaustive evaluation of the composed loop map on all loop values (<= 8) for the inputs of "
  "each cycle, using the reference evaluator",
  "'must not raise' is asserted only for false loops: a stage chain of <=7 stages plus its net blocks settles within "
  "<=~15 sweeps in any sweep order, far below pymtl3's 100-iteration bound; for true rings a report is always accepted",
  "the hang watchdog counts 20 s of CPU time of the checking process (evaluation normally takes milliseconds); wall-clock time is not used",
]
QUICK_S = 240
THOROUGH_S = 1200

CYCLIC = ["default", "mamba"]
ACYCLIC_ONLY = ["simple", "heutopo", "unroll"]


def R(sig, inst="", fld=(), sl=None):
  return {"inst": inst, "sig": sig, "fld": list(fld), "sl": list(sl) if sl is not None else None}


# ---------------------------------------------------------------------------
# generators
# ---------------------------------------------------------------------------

@st.composite
def carrier(draw, name, w):
  """a signal named `name` with a w-bit loop-carrying part -> (type, ref_to_part, sibling_ref or None, sibling_w)"""
  kind = draw(st.sampled_from(["whole", "slice", "slice", "field", "field"]))
  if kind == "whole":
    return ["b", w], R(name), None, 0
  if kind == "slice":
    below = draw(st.integers(0, 3)); above = draw(st.integers(0 if below else 1, 3))
    tot = below + w + above
    sib = None
    if below: sib = (R(name, sl=[0, below]), below)
    elif above: sib = (R(name, sl=[below + w, tot]), above)
    return ["b", tot], R(name, sl=[below, below + w]), sib[0], sib[1]
  sw = draw(st.integers(1, 4))
  first = draw(st.booleans())
  fields = [["lp", ["b", w]], ["sib", ["b", sw]]]
  if not first: fields.reverse()
  t = ["s", "Ring", fields]
  return t, R(name, fld=["lp"]), R(name, fld=["sib"]), sw


@st.composite
def stage_fn(draw, w, prev, inp, inp_w):
  """expression of width w over the previous stage value `prev` (an expr) and the input"""
  ine = ["sig", R(inp)] if inp_w == w else (["trunc", ["sig", R(inp)], w] if inp_w > w else ["zext", ["sig", R(inp)], w])
  k = draw(st.integers(0, 9))
  if k == 0: return ["inv", prev]
  if k == 1: return prev
  if k == 2: return ["bin", "^", prev, ine]
  if k == 3: return ["bin", "|", prev, ine]
  if k == 4: return ["bin", "&", prev, ine]
  if k == 5: return ["bin", "+", prev, ["const", w, draw(st.integers(0, (1 << w) - 1))]]
  if k == 6: return ["bin", "+", prev, ine]
  if k == 7: return ["bin", "^", prev, ["const", w, draw(st.integers(0, (1 << w) - 1))]]
  if k == 8: return ["ifexp", ["bit", R(inp), ["lit", 0]], prev, ["inv", prev]]
  return ["bin", "&", ["inv", prev], ine]


@st.composite
def ring_design(draw):
  k = draw(st.integers(2, 4))
  w = draw(st.integers(1, 3))
  inw = draw(st.integers(1, 4))
  top = {"ports": [["in0", "in", ["b", inw]]], "wires": [], "children": [], "conns": [], "blocks": [], "uu": []}
  classes = {"Top": top}
  parts = []
  for i in range(k):
    t, ref, sib, sibw = draw(carrier(f"r{i}", w))
    top["wires"].append([f"r{i}", t])
    parts.append((ref, sib, sibw))
  once = draw(st.integers(0, 7)) == 0
  for i in range(k):
    ref, sib, sibw = parts[i]
    pref = parts[i - 1][0]
    src = ["sig", pref]
    via = draw(st.sampled_from(["direct", "direct", "net", "child"]))
    if via == "net":
      nn = f"n{i}"
      top["wires"].append([nn, ["b", w]])
      top["conns"].append([R(nn), pref])
      src = ["sig", R(nn)]
    fn = draw(stage_fn(w, src, "in0", inw))
    if via == "child":
      cn = f"Stage{i}"
      fnc = draw(stage_fn(w, ["sig", R("a")], "b", inw))
      classes[cn] = {"ports": [["a", "in", ["b", w]], ["b", "in", ["b", inw]], ["y", "out", ["b", w]]], "wires": [],
                     "children": [], "conns": [], "uu": [],
                     "blocks": [{"name": "stg", "kind": "comb", "stmts": [["assign", R("y"), fnc]]}]}
      top["children"].append([f"c{i}", cn])
      top["conns"].append([R("a", inst=f"c{i}"), pref])
      top["conns"].append([R("b", inst=f"c{i}"), R("in0")])
      fn = draw(stage_fn(w, ["sig", R("y", inst=f"c{i}")], "in0", inw))
    stmts = [["assign", ref, fn]]
    if sib is not None:
      e = ["sig", R("in0")] if inw == sibw else (["trunc", ["sig", R("in0")], sibw] if inw > sibw else ["zext", ["sig", R("in0")], sibw])
      stmts.insert(draw(st.integers(0, 1)), ["assign", sib, e])
    kind = "once" if (once and i == 0) else "comb"
    top["blocks"].append({"name": f"rb{i}", "kind": kind, "stmts": stmts})
  # an observer downstream of the loop
  top["ports"].append(["obs", "out", ["b", w]])
  top["blocks"].append({"name": "observer", "kind": "comb", "stmts": [["assign", R("obs"), ["sig", parts[-1][0]]]]})
  return {"classes": classes, "top": "Top"}, {"family": "once" if once else "ring", "k": k, "w": w,
                                               "last": parts[-1][0], "parts": [p[0] for p in parts]}


@st.composite
def false_loop_design(draw):
  """stage chain v0=in, v_j = f_j(v_{j-1}); stage j is computed by block j mod nb and stored in a disjoint
  part (slice or field) of the signal owned by that block -> block graph cyclic, bit graph acyclic."""
  nb = draw(st.integers(2, 3))
  ns = draw(st.integers(nb + 1, 7))
  w = draw(st.integers(1, 4))
  inw = w
  use_struct = draw(st.booleans())
  top = {"ports": [["in0", "in", ["b", inw]]], "wires": [], "children": [], "conns": [], "blocks": [], "uu": []}
  per_blk = {b: [j for j in range(ns) if j % nb == b] for b in range(nb)}
  refs = {}
  for b in range(nb):
    mine = per_blk[b]
    if use_struct and draw(st.booleans()):
      t = ["s", f"Own{b}", [[f"v{j}", ["b", w]] for j in mine]]
      for j in mine: refs[j] = R(f"p{b}", fld=[f"v{j}"])
    else:
      t = ["b", w * len(mine)]
      for idx, j in enumerate(mine): refs[j] = R(f"p{b}", sl=[idx * w, idx * w + w])
      if len(mine) == 1: refs[mine[0]] = R(f"p{b}")
    top["wires"].append([f"p{b}", t])
  blocks = {b: [] for b in range(nb)}
  # every block also publishes a plain signal computed from the input only, read by the next block: a second,
  # loop-free carrier for the same block-to-block edges
  side = draw(st.booleans())
  # side2: the second carrier is wider, written as a whole from a second input (in1) and read through a slice: only
  # that carrier moves when in1 alone changes
  side2 = side and draw(st.booleans())
  qw = w + 2 if side2 else w
  if side2:
    top["ports"].append(["in1", "in", ["b", qw]])
  if side:
    for b in range(nb):
      top["wires"].append([f"q{b}", ["b", qw]])
      src = ["sig", R("in1")] if side2 else ["sig", R("in0")]
      blocks[b].append(["assign", R(f"q{b}"), ["inv", src] if b % 2 else src])
  for j in range(ns):
    prev = ["sig", R("in0")] if j == 0 else ["sig", refs[j - 1]]
    if j > 0 and refs[j - 1]["sl"] is not None and draw(st.integers(0, 2)) == 0:
      # read the WHOLE owner signal and cut the stage value out of it (the writer writes slices, the reader reads
      # the whole signal)
      owner = dict(refs[j - 1]); lo = owner["sl"][0]; owner["sl"] = None
      tw = [t for n_, t in top["wires"] if n_ == owner["sig"]][0][1]
      whole = ["sig", owner]
      prev = ["trunc", ["shr", whole, ["const", tw, lo]], w] if tw > w else whole
    if side and j > 0 and draw(st.booleans()):
      if side2:
        lo = draw(st.integers(0, 2))
        prev = ["bin", "^", prev, ["sig", R(f"q{(j - 1) % nb}", sl=[lo, lo + w])]]
      else:
        prev = ["bin", "^", prev, ["sig", R(f"q{(j - 1) % nb}")]]
    if j > 0 and draw(st.integers(0, 4)) == 0:
      nn = f"n{j}"
      top["wires"].append([nn, ["b", w]])
      top["conns"].append([R(nn), refs[j - 1]])
      prev = ["sig", R(nn)]
    fn = draw(stage_fn(w, prev, "in0", inw))
    blocks[j % nb].append(["assign", refs[j], fn])
  for b in range(nb):
    ss = blocks[b]
    if draw(st.booleans()): ss = ss[::-1]            # statement order inside a block must not matter at the fixed point
    top["blocks"].append({"name": f"fb{b}", "kind": "comb", "stmts": ss})
  top["ports"].append(["obs", "out", ["b", w]])
  top["blocks"].append({"name": "observer", "kind": "comb", "stmts": [["assign", R("obs"), ["sig", refs[ns - 1]]]]})
  return {"classes": {"Top": top}, "top": "Top"}, {"family": "false", "k": nb, "w": w, "stages": ns}


@st.composite
def long_false_ring(draw):
  """a ring of 10-14 blocks, each with an if/else, in which every stage shifts the ring value left by s bits of a
  w-bit path with nb*s > w: the block graph is one big cycle, no bit depends on itself (a false loop).  Large cyclic
  groups take their own code path in the Mamba pass (it splits them into sub-groups by branchiness)."""
  nb = draw(st.integers(10, 14))
  w = draw(st.sampled_from([8, 12, 16]))
  sh = draw(st.integers(max(1, w // nb + 1), 4))
  inw = draw(st.integers(2, 4))
  top = {"ports": [["in0", "in", ["b", inw]]], "wires": [], "children": [], "conns": [], "blocks": [], "uu": []}
  ine = ["zext", ["sig", R("in0")], w]
  plain = draw(st.sets(st.integers(0, nb - 1), max_size=3))          # a few branch-free stages in between
  for b in range(nb):
    top["wires"].append([f"r{b}", ["b", w]])
  for b in range(nb):
    prev = ["shl", ["sig", R(f"r{(b - 1) % nb}")], ["const", w, sh]]
    c1 = ["const", w, draw(st.integers(0, (1 << sh) - 1))]
    e1 = ["bin", "|", prev, c1]
    e2 = ["bin", "^", prev, ["bin", "&", ine, ["const", w, (1 << sh) - 1]]]
    if b in plain:
      stmts = [["assign", R(f"r{b}"), e1 if draw(st.booleans()) else e2]]
    else:
      cond = ["bit", R("in0"), ["lit", draw(st.integers(0, inw - 1))]]
      stmts = [["if", cond, [["assign", R(f"r{b}"), e1]], [["assign", R(f"r{b}"), e2]]]]
    top["blocks"].append({"name": f"fb{b}", "kind": "comb", "stmts": stmts})
  top["ports"].append(["obs", "out", ["b", w]])
  top["blocks"].append({"name": "observer", "kind": "comb", "stmts": [["assign", R("obs"), ["sig", R(f"r{nb - 1}")]]]})
  return {"classes": {"Top": top}, "top": "Top"}, {"family": "false", "k": nb, "w": w, "stages": nb, "long": True}


@st.composite
def cases(draw):
  if draw(st.integers(0, 7)) == 0:
    design, meta = draw(long_false_ring())
  elif draw(st.booleans()):
    design, meta = draw(false_loop_design())
  else:
    design, meta = draw(ring_design())
  ins = [(n, type_width(t)) for n, dr, t in design["classes"]["Top"]["ports"] if dr == "in"]
  seq = []
  for c in range(draw(st.integers(2, 5) if len(ins) > 1 else st.integers(2, 4))):
    cur = {n: draw(uvalue(w_)) for n, w_ in ins}
    if seq and len(ins) > 1 and draw(st.booleans()):
      keep = draw(st.sampled_from([n for n, _ in ins]))        # only the other input changes in this cycle
      cur[keep] = seq[-1]["in"][keep]
    seq.append({"in": cur, "reset": 0})
  seeds = draw(st.lists(st.integers(0, 2 ** 20), min_size=2, max_size=2))
  return {"design": design, "meta": meta, "seq": seq, "seeds": seeds}


# ---------------------------------------------------------------------------
# classification of rings by brute force with the reference evaluator
# ---------------------------------------------------------------------------

def classify_ring(design, meta, cyc):
  """-> 'nofix' | 'convergent' | 'mixed' for the given inputs"""
  m = Model(design)
  for p, v in cyc["in"].items(): m.set_input(p, v)
  units = m.comb_units()
  # order units along the ring: repeated sweeps of all units propagate one full turn in <= len(units) sweeps
  w = meta["w"]
  last = meta["last"]

  def G(x):
    st_ = dict(m.state)
    m.write(st_, "", last, w, x)
    # propagate one full turn: run every unit except the writer of `last`'s part first, writer last
    for _ in range(len(units) + 2):
      for u in units:
        if u[1] == "blk" and u[2]["name"] == f"rb{meta['k'] - 1}": continue
        m.run_unit(u, st_)
    for u in units:
      if u[1] == "blk" and u[2]["name"] == f"rb{meta['k'] - 1}":
        m.run_unit(u, st_)
    return m.read("", last, st_)[1]

  g = [G(x) for x in range(1 << w)]
  fixed = [x for x in range(1 << w) if g[x] == x]
  if not fixed: return "nofix"
  for x in range(1 << w):
    y = x
    for _ in range((1 << w) + 1): y = g[y]
    if g[y] != y: return "mixed"
  return "convergent"


class Hang(Exception):
  pass


def _alarm(signum, frame):
  raise Hang()


def run_pass(design, meta, seq, which, rseed, classes_per_cycle, ref_snaps):
  from pymtl3.dsl.errors import UpblkCyclicError
  s = rtl_sim.Sim(design)
  stage = "elaborate"
  # the watchdog counts CPU time of this process (ITIMER_PROF), not wall-clock time: a loaded machine cannot trip it
  old = signal.signal(signal.SIGPROF, _alarm)
  signal.setitimer(signal.ITIMER_PROF, 20)
  try:
    s.elaborate()
    stage = "apply"
    must_reject = which in ACYCLIC_ONLY or meta["family"] == "once"
    try:
      s.apply(which, rseed=rseed)
    except UpblkCyclicError as ex:
      if must_reject: return None
      return (f"{which}:{meta['family']}:rejected_at_scheduling", str(ex)[:300])
    if must_reject:
      return (f"{which}:{meta['family']}:cycle_not_rejected", "scheduling completed for a cyclic block graph")
    top = s.top
    nonff = sorted(top._dag.final_upblks - top.get_all_update_ff(), key=lambda f: f.__name__)
    for t, cyc in enumerate(seq):
      stage = "eval"
      cls = classes_per_cycle[t]
      s.set_inputs(cyc)
      try:
        s.eval_comb()
      except UpblkCyclicError as ex:
        # a ring that has fixed points may still oscillate forever under the SCC's sequential sweep order
        # (values of several "generations" rotate around the ring), so a report is legitimate for every
        # true loop; only false loops (bit-level acyclic) must never be reported
        if cls in ("nofix", "mixed", "convergent"): return None
        return (f"{which}:{meta['family']}:{cls}:spurious_cyclic_error", f"cycle {t}: {str(ex)[:200]}")
      if cls == "nofix":
        return (f"{which}:ring:nofix:returned_without_error", f"cycle {t}: no stable assignment exists but evaluation returned")
      got = s.snapshot()
      for blk in nonff:
        blk()
        again = s.snapshot()
        if again != got:
          dd = rtl_sim.diff(got, again)
          return (f"{which}:{meta['family']}:unstable_state_returned", f"cycle {t}: re-running {blk.__name__} changed {dd[:4]}")
      if cls == "false":
        exp = ref_snaps[t]
        if got != exp:
          dd = rtl_sim.diff(exp, got)
          return (f"{which}:false:value_mismatch", f"cycle {t}: {[(k, got[k], exp[k]) for k in dd[:4]]}")
    return None
  except Hang:
    return (f"{which}:{meta['family']}:hang", f"no result within 20 s of CPU time at stage {stage}")
  except Exception as ex:
    import traceback
    tb = traceback.extract_tb(ex.__traceback__)
    inner = [f for f in tb if "/pymtl3/" in f.filename]
    if not inner: raise
    return (f"{which}:{meta['family']}:{stage}:exception:{type(ex).__name__}@{inner[-1].name}", f"{ex}"[:300])
  finally:
    signal.setitimer(signal.ITIMER_PROF, 0)
    signal.signal(signal.SIGPROF, old)
    s.close()


def judge(case, stats=None):
  design, meta, seq = case["design"], case["meta"], case["seq"]
  cls = []
  snaps = []
  if meta["family"] == "false":
    m = Model(design)
    for cyc in seq:
      for p, v in cyc["in"].items(): m.set_input(p, v)
      m.eval_comb(check_confluence=True)
      snaps.append(m.snapshot()); cls.append("false")
  elif meta["family"] == "ring":
    cls = [classify_ring(design, meta, cyc) for cyc in seq]
  else:
    cls = ["once"] * len(seq)
  if stats is not None: stats["classes"] = cls
  for i, p in enumerate(CYCLIC + ACYCLIC_ONLY):
    v = run_pass(design, meta, seq, p, case["seeds"][i % 2], cls, snaps)
    if v is not None: return v
  return None


def run_shard(ctx):
  @seed(ctx.hseed())
  @ctx.settings(ctx.n(3200, 60000))
  @given(cases())
  def t(case):
    if ctx.out_of_time(): return
    ctx.count()
    stats = {}
    v = judge(case, stats)
    fam = case["meta"]["family"]
    ctx.label("family_" + fam)
    for c in set(stats.get("classes", [])): ctx.label("cycle_class_" + c)
    s = repr(case["design"])
    partial = "'sl': [" in s or "'fld': ['" in s or "'n" in s
    if v is None and (partial or fam == "once"):
      ctx.nontriv(case["design"])
    ctx.judge(case, v)
    if ctx.evaluations % 9 == 0:
      from vf.gen.rtl_render import Renderer
      ctx.sample({"source": Renderer(case["design"]).source("x")[:1500], "meta": case["meta"], "classes": stats.get("classes")})

  ctx.run(t, "c11")


def replay(case):
  for _ in range(3):
    v = judge(case)
    if v is not None: return v
  return None
