"""C04 -- Bits arithmetic is exact unsigned arithmetic modulo 2^n."""
import itertools
import operator

from hypothesis import given, seed, strategies as st

from vf.runner import Violation
from vf.strategies import widths, uvalue, any_int

ID = "C04"
LEVEL = "exploration"
RULE = ("cases = (op, operand kind, class flavour, n, a, b); exhaustive over all operand "
        "pairs/kinds for small n plus Hypothesis-generated cases over n in 1..1023 with "
        "boundary-biased operands; oracle = exact integer table (value mod 2^n, documented "
        "width, 0<=uint<2^n, operands unchanged, error clauses). non-trivial = result wraps, "
        "or an operand is 0/1/2^(n-1)/2^(n-1)+-1/2^n-1, or the case is an error-clause case; "
        "distinct by the full case tuple")
ASSUMPTIONS = [
  "PythonBits is the Bits implementation in use (no mamba module in this sandbox)",
  "cases the statement leaves open are judged weakly: negative int operand of a binary "
  "operator may raise or give the exact result for k mod 2^n; int shift amount >= 2^n may raise "
  "or give 0; division/modulo by zero is excluded (counted)",
]
QUICK_S = 240
THOROUGH_S = 900

ARITH = {
  "add": (operator.add, lambda a, b, n: (a + b) % (1 << n)),
  "sub": (operator.sub, lambda a, b, n: (a - b) % (1 << n)),
  "mul": (operator.mul, lambda a, b, n: (a * b) % (1 << n)),
  "and": (operator.and_, lambda a, b, n: a & b),
  "or":  (operator.or_, lambda a, b, n: a | b),
  "xor": (operator.xor, lambda a, b, n: a ^ b),
  "floordiv": (operator.floordiv, lambda a, b, n: a // b),
  "mod": (operator.mod, lambda a, b, n: a % b),
}
SHIFT = {
  "lshift": (operator.lshift, lambda a, b, n: (a << b) % (1 << n) if b < n else 0),
  "rshift": (operator.rshift, lambda a, b, n: a >> b),
}
CMP = {
  "eq": (operator.eq, lambda a, b: a == b), "ne": (operator.ne, lambda a, b: a != b),
  "lt": (operator.lt, lambda a, b: a < b), "le": (operator.le, lambda a, b: a <= b),
  "gt": (operator.gt, lambda a, b: a > b), "ge": (operator.ge, lambda a, b: a >= b),
}
BINOPS = list(ARITH) + list(SHIFT) + list(CMP)
# operand kinds of the right operand
KINDS = ["bits_same", "bits_other", "int", "rint"]   # rint: int on the LEFT (reflected)
UNARY = ["invert", "ctor", "ctor_trunc", "ctor_bits", "imatmul", "imatmul_bits", "ilshift",
         "ilshift_bits", "conv", "clone", "eqnone"]
FLAVOURS = ["Bits", "BitsN", "mk_bits"]

_env = {}


def env():
  if not _env:
    import pymtl3
    from pymtl3.datatypes import Bits, mk_bits
    import pymtl3.datatypes.bits_import as bi
    _env.update(Bits=Bits, mk_bits=mk_bits, bi=bi)
  return _env


def mk(flv, n, v):
  e = env()
  if flv == "Bits":
    return e["Bits"](n, v)
  if flv == "BitsN" and n in e["bi"]._bits_types:
    return e["bi"]._bits_types[n](v)
  return e["mk_bits"](n)(v)


def _ok_bits(x, n, val):
  e = env()
  if not isinstance(x, e["Bits"]): return f"result is {type(x).__name__}, not Bits"
  if x.nbits != n: return f"result width {x.nbits}, expected {n}"
  u = x.uint()
  if not isinstance(u, int): return f"uint() has type {type(u).__name__}"
  if not (0 <= u < (1 << n)): return f"stored value {u} outside [0,2^{n})"
  if int(u) != val: return f"value {int(u)}, expected {val}"
  if int(x) != val: return f"int() gives {int(x)}, expected {val}"
  return None


def judge(case):
  """returns None or (signature, detail)"""
  op, kind, flv, n, a = case["op"], case["kind"], case["flv"], case["n"], case["a"]
  b, bn = case.get("b"), case.get("bn")
  e = env()
  Bits = e["Bits"]
  M = 1 << n

  def sig(what):
    return f"{op}:{kind}:{what}"

  if op in ARITH or op in SHIFT or op in CMP:
    x = mk(flv, n, a)
    if kind == "bits_same":
      y = mk(flv, n, b); expect = "value"; bv = b
    elif kind == "bits_other":
      y = mk(flv, bn, b); bv = b
      expect = "either" if op in SHIFT else "error"
    else:
      y = b; bv = b
      if 0 <= b < M: expect = "value"
      elif b >= M: expect = "either0" if op in SHIFT else "error"
      else:
        expect = "either"; bv = b % M          # negative int: left open
    if op in ("floordiv", "mod"):
      divisor = a if kind == "rint" else bv
      if divisor == 0 and expect in ("value", "either"):
        return "skip"
    if kind == "rint":
      if op in SHIFT: return "skip"
      lhs_v, rhs_v = bv, a
      call = lambda f: f(y, x)
    else:
      lhs_v, rhs_v = a, bv
      call = lambda f: f(x, y)
    if op in ARITH:
      f, spec = ARITH[op]; rw = n
      val = spec(lhs_v, rhs_v, n) if expect in ("value", "either") else None
      if val is not None and kind == "rint" and op in ("floordiv", "mod", "sub"):
        val %= M
    elif op in SHIFT:
      f, spec = SHIFT[op]; rw = n
      if expect == "either0": val = 0; expect = "either"
      else: val = spec(lhs_v, rhs_v, n)
    else:
      f, spec = CMP[op]; rw = 1
      val = int(spec(lhs_v, rhs_v)) if expect in ("value", "either") else None
    try:
      r = call(f)
    except Exception as ex:
      if expect == "value":
        return sig("unexpected_exception"), f"{type(ex).__name__}: {ex}"
      return None
    if expect == "error":
      return sig("no_error"), f"returned {r!r} instead of raising"
    why = _ok_bits(r, rw, val)
    if why: return sig("wrong_result"), why
    if int(x.uint()) != a or x.nbits != n: return sig("operand_mutated"), f"left operand now {x!r}"
    if isinstance(y, Bits) and int(y.uint()) != b: return sig("operand_mutated"), f"right operand now {y!r}"
    # the result is a value of its own: changing it in place must not change later results
    if r is x or r is y: return sig("result_aliases_operand"), "the result object is one of the operands"
    r @= (val ^ 1) if rw > 1 or True else val
    try:
      r2 = call(f)
    except Exception as ex:
      return sig("unexpected_exception"), f"second evaluation: {type(ex).__name__}: {ex}"
    why = _ok_bits(r2, rw, val)
    if why: return sig("result_shared_between_calls"), f"after modifying an earlier result in place, the operation returns: {why}"
    if int(x.uint()) != a or (isinstance(y, Bits) and int(y.uint()) != b):
      return sig("result_aliases_operand"), "modifying the result changed an operand"
    return None

  if op == "invert":
    x = mk(flv, n, a)
    try: r = ~x
    except Exception as ex: return sig("unexpected_exception"), repr(ex)
    why = _ok_bits(r, n, (M - 1) ^ a)
    if why: return sig("wrong_result"), why
    if int(x) != a: return sig("operand_mutated"), repr(x)
    return None

  if op in ("ctor", "ctor_trunc"):
    # b: arbitrary python int
    trunc = op == "ctor_trunc"
    legal = trunc or (-(M >> 1) <= b <= M - 1)
    try:
      if flv == "Bits": r = Bits(n, b, trunc_int=True) if trunc else Bits(n, b)
      else:
        T = e["bi"]._bits_types[n] if (flv == "BitsN" and n in e["bi"]._bits_types) else e["mk_bits"](n)
        r = T(b, trunc_int=True) if trunc else T(b)
    except Exception as ex:
      if legal: return sig("unexpected_exception"), f"{type(ex).__name__}: {ex}"
      return None
    if not legal: return sig("no_error"), f"accepted {b} for width {n}: {r!r}"
    why = _ok_bits(r, n, b % M)
    if why: return sig("wrong_result"), why
    return None

  if op == "ctor_bits":
    # Bits(n, Bits(bn, b))
    src = mk("Bits", bn, b)
    try: r = mk(flv, n, src)
    except Exception as ex:
      if bn == n: return sig("unexpected_exception"), repr(ex)
      return None
    if bn != n: return sig("no_error"), f"Bits{n}(Bits{bn}) accepted: {r!r}"
    why = _ok_bits(r, n, b)
    if why: return sig("wrong_result"), why
    r @= (b ^ 1)
    if int(src) != b: return sig("aliasing"), "constructor shares storage with its source"
    return None

  if op in ("imatmul", "ilshift"):
    x = mk(flv, n, a); x0 = x
    legal = -(M >> 1) <= b <= M - 1
    try:
      if op == "imatmul": x @= b
      else: x <<= b
    except Exception as ex:
      if legal: return sig("unexpected_exception"), f"{type(ex).__name__}: {ex}"
      if int(x0) != a: return sig("mutated_on_error"), repr(x0)
      return None
    if not legal: return sig("no_error"), f"accepted {b} for width {n}"
    if x is not x0: return sig("not_in_place"), "augmented assignment returned another object"
    if op == "imatmul":
      why = _ok_bits(x, n, b % M)
      if why: return sig("wrong_result"), why
    else:
      why = _ok_bits(x, n, a)
      if why: return sig("visible_before_flip"), why
      x._flip()
      why = _ok_bits(x, n, b % M)
      if why: return sig("wrong_result"), why
    return None

  if op in ("imatmul_bits", "ilshift_bits"):
    x = mk(flv, n, a); x0 = x
    src = mk("Bits", bn, b)
    try:
      if op == "imatmul_bits": x @= src
      else: x <<= src
    except Exception as ex:
      if bn == n: return sig("unexpected_exception"), repr(ex)
      if int(x0) != a: return sig("mutated_on_error"), repr(x0)
      return None
    if bn != n: return sig("no_error"), f"Bits{n} accepted Bits{bn}"
    if x is not x0: return sig("not_in_place"), ""
    if op == "ilshift_bits":
      why = _ok_bits(x, n, a)
      if why: return sig("visible_before_flip"), why
      src @= (b ^ 1)                         # later change of the source is not seen
      x._flip()
    why = _ok_bits(x, n, b)
    if why: return sig("wrong_result"), why
    if op == "imatmul_bits":
      src @= (b ^ 1)
      if int(x) != b: return sig("aliasing"), "@= aliases the source"
    return None

  if op == "conv":
    x = mk(flv, n, a)
    signed = a - M if a >> (n - 1) else a
    try:
      got = (int(x), x.uint(), x.int(), bool(x), x.__index__(), hash(x) == hash(mk("Bits", n, a)),
             x.nbits)
    except Exception as ex:
      return sig("unexpected_exception"), repr(ex)
    exp = (a, a, signed, a != 0, a, True, n)
    if tuple(got) != exp: return sig("wrong_result"), f"{got} != {exp}"
    if int(x) != a: return sig("operand_mutated"), repr(x)
    return None

  if op == "clone":
    import copy
    x = mk(flv, n, a)
    for c in (x.clone(), copy.deepcopy(x)):
      why = _ok_bits(c, n, a)
      if why: return sig("wrong_result"), why
      if c is x: return sig("aliasing"), "copy is the same object"
      c @= (a ^ 1)
      if int(x) != a: return sig("aliasing"), "copy shares storage"
    return None

  if op == "eqnone":
    x = mk(flv, n, a)
    for other in (None, "x", (1,), [0]):
      try:
        r1, r2 = x == other, x != other
      except Exception:
        continue
      if bool(r1) or not bool(r2):
        return sig("wrong_result"), f"== {other!r} -> {r1!r}, != -> {r2!r}"
    return None

  raise ValueError(f"unknown op {op}")


def boundary(n, v):
  M = 1 << n
  return v in (0, 1, M - 1, M >> 1, (M >> 1) - 1, (M >> 1) + 1)


def is_nontrivial(case):
  op, n, a, b = case["op"], case["n"], case["a"], case.get("b")
  kind = case["kind"]
  M = 1 << n
  if kind == "bits_other": return True
  if b is not None and not (0 <= b < M): return True
  if boundary(n, a) or (b is not None and boundary(n, b)): return True
  if op in ("add", "mul") and b is not None:
    return (a + b if op == "add" else a * b) >= M
  if op == "sub" and b is not None: return a < b
  if op == "lshift" and b is not None: return b >= n or (a << b) >= M
  return False


def key(case):
  return (case["op"], case["kind"], case["flv"], case["n"], case["a"], case.get("b"), case.get("bn"))


def one(ctx, case):
  v = judge(case)
  if v == "skip":
    ctx.label("skipped_div0_or_undefined")
    return
  ctx.count()
  ctx.label("op_" + case["op"] + "_" + case["kind"])
  if is_nontrivial(case):
    ctx.nontriv(repr(key(case)))
  ctx.judge(case, v)


def exhaustive(ctx, maxn):
  """all ops x kinds x operand pairs for n <= maxn; split over shards by index."""
  idx = 0
  total = 0
  for n in range(1, maxn + 1):
    M = 1 << n
    ints = list(range(-(M >> 1) - 2, 2 * M + 2))
    for op in BINOPS:
      for kind in KINDS:
        idx += 1
        if idx % ctx.nshards != ctx.shard: continue
        if kind == "bits_same":
          pairs = [(a, b, None) for a in range(M) for b in range(M)]
        elif kind == "bits_other":
          pairs = [(a, b, bn) for a in range(M) for bn in range(1, maxn + 2) if bn != n
                   for b in range(1 << bn)]
        else:
          pairs = [(a, b, None) for a in range(M) for b in ints]
        for a, b, bn in pairs:
          case = {"op": op, "kind": kind, "flv": FLAVOURS[(a + (b or 0)) % 3], "n": n, "a": a,
                  "b": b, "bn": bn}
          try:
            one(ctx, case)
          except Violation:
            return                                   # recorded by ctx.judge
          total += 1
    for op in UNARY:
      idx += 1
      if idx % ctx.nshards != ctx.shard: continue
      for a in range(M):
        if op in ("ctor", "ctor_trunc", "imatmul", "ilshift"):
          bs = [(b, None) for b in ints]
        elif op in ("ctor_bits", "imatmul_bits", "ilshift_bits"):
          bs = [(b, bn) for bn in range(1, maxn + 2) for b in range(1 << bn)]
        else:
          bs = [(None, None)]
        for b, bn in bs:
          case = {"op": op, "kind": "unary", "flv": FLAVOURS[a % 3], "n": n, "a": a, "b": b, "bn": bn}
          try:
            one(ctx, case)
          except Violation:
            return
          total += 1
  ctx.extra["exhaustive_cases"] = total
  ctx.extra["exhaustive_maxn"] = maxn


@st.composite
def cases(draw):
  n = draw(widths())
  a = draw(uvalue(n))
  flv = draw(st.sampled_from(FLAVOURS))
  if draw(st.integers(0, 3)) == 0:
    op = draw(st.sampled_from(UNARY))
    b = bn = None
    if op in ("ctor", "ctor_trunc", "imatmul", "ilshift"):
      b = draw(any_int(n))
    elif op in ("ctor_bits", "imatmul_bits", "ilshift_bits"):
      bn = draw(st.one_of(st.just(n), st.sampled_from([max(1, n - 1), min(1023, n + 1)]), widths()))
      b = draw(uvalue(bn))
    return {"op": op, "kind": "unary", "flv": flv, "n": n, "a": a, "b": b, "bn": bn}
  op = draw(st.sampled_from(BINOPS))
  kind = draw(st.sampled_from(KINDS))
  bn = None
  if kind == "bits_same":
    b = draw(uvalue(n))
    if op in SHIFT and draw(st.booleans()):
      b = min((1 << n) - 1, draw(st.integers(0, n + 2)))
  elif kind == "bits_other":
    bn = draw(st.one_of(st.sampled_from([max(1, n - 1), min(1023, n + 1)]), widths()))
    if bn == n: bn = n + 1 if n < 1023 else n - 1
    b = draw(uvalue(bn))
    if op in SHIFT and draw(st.booleans()):
      b = min((1 << bn) - 1, draw(st.integers(0, n + 2)))
  else:
    b = draw(any_int(n))
    if op in SHIFT and draw(st.booleans()):
      b = draw(st.integers(0, n + 2))
  return {"op": op, "kind": kind, "flv": flv, "n": n, "a": a, "b": b, "bn": bn}


def run_shard(ctx):
  exhaustive(ctx, 3 if ctx.tier == "quick" else 5)
  if ctx.violations:
    return

  @seed(ctx.hseed())
  @ctx.settings(ctx.n(24000, 3200000))
  @given(cases())
  def t(case):
    if ctx.out_of_time(): return
    one(ctx, case)
    if ctx.evaluations % 997 == 0: ctx.sample(case)

  ctx.run(t, "c04")


def replay(case):
  v = judge(case)
  return None if v == "skip" else v


def extra_coverage(merged):
  ex = merged["extra"]
  return {"exhaustive_small_width_cases": sum(ex.get("exhaustive_cases", [])),
          "exhaustive_small_width_maxn": max(ex.get("exhaustive_maxn", [0])),
          "exhaustive": False,
          "note": "the small-width slice (all ops x kinds x operand pairs, n <= maxn) is enumerated "
                  "completely; the rest of the space is sampled"}
