"""C08 -- connected signals form single-writer nets that do not depend on the connect order."""
from hypothesis import given, seed, strategies as st

from vf.gen import rtl_gen, rtl_sim
from vf.ref.rtl_eval import Model, type_width

ID = "C08"
LEVEL = "exploration"
RULE = ("case = (generated legal design whose connections join signals, slices, struct fields, child ports and constants "
        "across hierarchy levels; N rendering variants: permuted statements, swapped sides, connect() vs //=, blocks "
        "interleaved with connections; input vector); oracle from the IR alone: nets == connected components (union-find) "
        "of the endpoint graph incl. the implicit clk/reset wiring, constants as members; writer == the unique member that "
        "is not the driven side of any statement of its component; adjacency dict == statement graph by name; all variants "
        "agree; after simulation every member equals its writer's bits. non-trivial = a net with >=3 members spanning >=2 "
        "hierarchy levels, or a net whose writer is a signal driven through a slice/field relative, and >=2 variants whose "
        "statement order differs; distinct by design")
ASSUMPTIONS = [
  "the IR records for each connection which side is the driver (the generator builds designs forward from drivers); the "
  "renderer is free to swap the sides, so pymtl3 never sees that direction",
  "endpoint names follow repr(signal): s.<inst path>.<signal><.field|[i]>*<[lo:hi]>",
]
QUICK_S = 240
THOROUGH_S = 1200


def ref_name(ip, ref):
  n = "s"
  tip = ip if not ref["inst"] else (ref["inst"] if ip == "" else ip + "." + ref["inst"])
  if tip: n += "." + tip
  n += "." + ref["sig"]
  for f in ref["fld"]:
    n += f"[{f}]" if isinstance(f, int) else f".{f}"
  if ref["sl"] is not None: n += f"[{ref['sl'][0]}:{ref['sl'][1]}]"
  return n


def expected(design):
  """-> (set of frozenset(names) nets, {frozenset: writer name}, set of frozenset({a,b}) edges, const count per net)"""
  m = Model(design)
  parent = {}

  def find(x):
    while parent.setdefault(x, x) != x:
      parent[x] = parent[parent[x]]; x = parent[x]
    return x

  edges = set()
  driven = set()
  cid = 0
  for ip, cn in m.insts.items():
    for dst, src in m.classes[cn]["conns"]:
      a = ref_name(ip, dst)
      if isinstance(src, list):
        cid += 1
        b = f"<const{cid}:{src[1]}:{src[2]}>"
      else:
        b = ref_name(ip, src)
      edges.add(frozenset((a, b)))
      driven.add(a)
      parent[find(a)] = find(b)
    if ip != "":
      par = ip.rpartition(".")[0]
      for sig in ("clk", "reset"):
        a = f"s.{ip}.{sig}"; b = ("s." + par if par else "s") + "." + sig
        edges.add(frozenset((a, b))); driven.add(a)
        parent[find(a)] = find(b)
  comps = {}
  for x in list(parent):
    comps.setdefault(find(x), set()).add(x)
  nets = {}
  for members in comps.values():
    if len(members) < 2: continue
    roots = [x for x in members if x not in driven]
    nets[frozenset(members)] = roots
  return nets, edges


def observe(top):
  from pymtl3.dsl.Connectable import Const
  cid = 0
  cname = {}

  def nm(x):
    nonlocal cid
    if isinstance(x, Const):
      if id(x) not in cname:
        cid += 1; cname[id(x)] = ("<const>", int(x._dsl.const.to_bits()) if hasattr(x._dsl.const, "to_bits") else int(x._dsl.const))
      return cname[id(x)]
    return repr(x)
  nets = []
  for writer, members in top.get_all_value_nets():
    nets.append((nm(writer) if writer is not None else None, sorted((nm(x) for x in members), key=str)))
  adj = top.get_signal_adjacency_dict()
  edges = []
  for u, vs in adj.items():
    for v in vs:
      edges.append(tuple(sorted((nm(u), nm(v)), key=str)))
  return nets, sorted(set(edges), key=str)


def norm_expected(nets, edges):
  """constants -> ("<const>", value) so that they compare with the observation"""
  def c(x):
    if x.startswith("<const"):
      _, w, v = x[1:-1].split(":"); return ("<const>", int(v))
    return x
  enets = []
  for members, roots in nets.items():
    enets.append(([c(r) for r in roots], sorted((c(x) for x in members), key=str)))
  eedges = sorted({tuple(sorted((c(a), c(b)), key=str)) for a, b in (tuple(e) for e in edges)}, key=str)
  return enets, eedges


def judge(case, stats=None):
  design = case["design"]
  nets, edges = expected(design)
  for members, roots in nets.items():
    if len(roots) != 1:
      raise AssertionError(f"harness: net without unique root {sorted(members)} {roots}")
  enets, eedges = norm_expected(nets, edges)
  ekey = sorted((str(w[0]), [str(x) for x in mem]) for w, mem in enets)
  first = None
  for vi, variant in enumerate(case["variants"]):
    s = rtl_sim.Sim(design, variant)
    try:
      try:
        s.elaborate()
        onets, oedges = observe(s.top)
      except Exception as ex:
        import traceback
        tb = traceback.extract_tb(ex.__traceback__)
        inner = [f for f in tb if "/pymtl3/" in f.filename]
        if not inner: raise
        return (f"elaborate:exception:{type(ex).__name__}@{inner[-1].name}", f"variant {vi}: {ex}"[:300])
      okey = sorted((str(w), [str(x) for x in mem]) for w, mem in onets)
      if [k[1] for k in okey] != [k[1] for k in sorted(ekey, key=lambda k: (k[0], k[1]))] and \
         sorted(k[1] for k in okey) != sorted(k[1] for k in ekey):
        miss = [k for k in sorted(k[1] for k in ekey) if k not in [q[1] for q in okey]]
        extra = [k for k in [q[1] for q in okey] if k not in [q[1] for q in ekey]]
        return ("nets:not_connected_components", f"variant {vi}: missing {miss[:2]} extra {extra[:2]}")
      emap = {tuple(k[1]): k[0] for k in ekey}
      for w, mem in okey:
        if emap[tuple(mem)] != w:
          return ("nets:wrong_writer", f"variant {vi}: net {mem} writer {w}, expected {emap[tuple(mem)]}")
      if [tuple(map(str, e)) for e in oedges] != [tuple(map(str, e)) for e in eedges]:
        a = {tuple(map(str, e)) for e in oedges}; b = {tuple(map(str, e)) for e in eedges}
        return ("adjacency:differs_from_statements", f"variant {vi}: missing {sorted(b - a)[:3]} extra {sorted(a - b)[:3]}")
      if first is None: first = (okey, oedges)
      elif (okey, oedges) != first:
        return ("nets:variant_dependent", f"variant {vi} differs from variant 0")
      # simulate: members carry the writer's value
      if vi in (0, len(case["variants"]) - 1):
        s.apply("default")
        s.set_inputs(case["cyc"])
        s.eval_comb()
        for writer, members in s.top.get_all_value_nets():
          vals = {}
          for x in members:
            try:
              v = eval(repr(x), {"s": s.top}) if x.is_signal() else x._dsl.const
            except Exception:
              continue
            vals[repr(x)] = int(v.to_bits()) if hasattr(v, "to_bits") else int(v)
          if len(set(vals.values())) > 1:
            return ("sim:net_members_differ", f"variant {vi}: {vals}")
    finally:
      s.close()
  if stats is not None:
    stats["nets"] = len(nets)
    stats["big"] = any(len(mem) >= 3 and len({x.count(".") for x in mem if not x.startswith("<")}) >= 2 and
                       not any(x.endswith((".clk", ".reset")) for x in mem) for mem in nets)
    stats["relative"] = any(("[" in r[0] or r[0].count(".") > 1) for mem, r in nets.items() if not r[0].startswith("<")
                            and not r[0].endswith((".clk", ".reset")))
  return None


@st.composite
def cases(draw, nvar):
  design = draw(rtl_gen.designs(ff=draw(st.booleans()), max_steps=6, ifcs=draw(st.booleans()), deep_rel=draw(st.sampled_from([1, 2, 3])), conn_bias=draw(st.sampled_from([0, 1, 2, 3])), struct_bias=draw(st.sampled_from([0, 1]))))
  variants = [None]
  for i in range(nvar - 1):
    variants.append({"seed": draw(st.integers(0, 2 ** 30)), "conn_style": True, "perm_stmts": True,
                     "perm_blocks": draw(st.booleans()), "interleave": draw(st.booleans())})
  seq = draw(rtl_gen.input_seqs(design, ncycles=1))
  return {"design": design, "variants": variants, "cyc": seq[0]}


def run_shard(ctx):
  nvar = 6 if ctx.tier == "quick" else 16

  @seed(ctx.hseed())
  @ctx.settings(ctx.n(1600, 30000))
  @given(cases(nvar))
  def t(case):
    if ctx.out_of_time(): return
    ctx.count()
    for f_ in rtl_gen.features(case["design"]): ctx.label(f_)
    stats = {}
    v = judge(case, stats)
    if stats.get("big"): ctx.label("net_3plus_members_2_levels")
    if stats.get("relative"): ctx.label("writer_is_slice_or_field_or_child_port")
    if v is None and (stats.get("big") or stats.get("relative")):
      ctx.nontriv(case["design"])
    ctx.judge(case, v)
    if ctx.evaluations % 23 == 0:
      nets, _ = expected(case["design"])
      ctx.sample({"nets": [sorted(m) for m in list(nets)[:4]], "variants": len(case["variants"])})

  ctx.run(t, "c08")


def replay(case):
  for _ in range(3):
    v = judge(case)
    if v is not None: return v
  return None
