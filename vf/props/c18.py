"""C18 -- magic memories act as one in-order memory whatever the timing parameters.

Devices under test: pymtl3.stdlib.mem.MagicMemoryCL (method ports) and
pymtl3.stdlib.stream.magic_memory.MagicMemoryRTL (val/rdy ports).  Each generated case is a
timing configuration plus one request stream per port; the memory is simulated between
harness-side sources and sinks (defined below, modelled on the library's test sources/sinks
but with per-message gaps and arbitrary ready patterns), the calls that reach the
MagicMemoryFL instance inside the memory are logged by instance-attribute wrappers, and
everything observed is compared with the independent byte-array model vf.ref.mem_model.
"""
import copy
import random
import sys
import time
import traceback

from hypothesis import given, seed, strategies as st

from pymtl3 import (CallerIfcCL, Component, DefaultPassGroup, M, U, Wire, non_blocking, update,
                    update_ff, update_once)
from pymtl3.passes.PassGroups import SimpleSimPass
from pymtl3.stdlib.mem.MagicMemoryCL import MagicMemoryCL
from pymtl3.stdlib.mem.MemMsg import mk_mem_msg
from pymtl3.stdlib.stream.ifcs import RecvIfcRTL, SendIfcRTL
from pymtl3.stdlib.stream.magic_memory import MagicMemoryRTL

from vf.ref import mem_model as mm
from vf.runner import Violation, sha12

ID = "C18"
LEVEL = "exploration"
RULE = ("case = memory kind (MagicMemoryCL 1-3 ports, latency 0-5 | stream MagicMemoryRTL 1-2 ports, "
        "extra_latency 0-4) x stall_prob in {0,.3,.7,.9} (CL: stall seed per port drawn) x per-port "
        "source gaps x per-port sink ready pattern (per-message busy counts up to 12 cycles or a cyclic "
        "per-cycle mask; long enough to fill the response pipe) x scheduler (DefaultPassGroup | "
        "SimpleSimPass under random.seed(k)) x per-port request streams (<=13 requests: read/write of "
        "1..4 bytes at byte addresses of a 64-byte window with a 10-byte hot zone, the nine AMOs on 4 "
        "shared word addresses, opaque = running counter, boundary-biased data); one third of the cases "
        "give every port a private 20-byte region and a second timing configuration for the metamorphic "
        "comparison. Oracle: FL-call log per port == that port's requests exactly once; responses per "
        "port in request order with type+opaque; every logged return value, every read/AMO response and "
        "the final read_mem image (window + guard bytes) == byte-array model applied in logged order; "
        "disjoint ports => response contents identical under both timing configurations. "
        "non-trivial = the run contains a read whose bytes were last stored by >= 2 different earlier "
        "requests, or an AMO on bytes stored earlier by another port, AND the configuration has latency "
        "> 1 (CL latency >= 2 / stream extra_latency >= 1) or stall_prob > 0 or sink back-pressure; distinct by the sha of the whole case")
ASSUMPTIONS = [
  "harness-side sources/sinks obey the val/rdy and method-port protocols (a source never withdraws an "
  "offered request; a sink may be not-ready for any number of cycles); messages are mk_mem_msg(8,32,32)",
  "AMOs are generated with full-word length and word-aligned addresses only (sub-word AMOs raise a "
  "width error in MagicMemoryFL and no caller produces them); INV/FLUSH/LR/SC are not generated",
  "the port that caused a MagicMemoryFL call is read from the local variable `i` of the calling up_mem "
  "frame (both memories service ports in a `for i in range(nports)` loop); a call from anywhere else is "
  "a harness error, not a verdict",
  "RandomStall's seed is fixed by the library (port index) and cannot be varied; StallCL's RNG object is "
  "replaced by Random(k) with k drawn (harness side); DefaultPassGroup does not use the global RNG, "
  "SimpleSchedulePass does and is seeded with a drawn k",
  "responses are required to come back within a cycle bound that is > 4x the expected service time "
  "plus 300 cycles (stall RNGs are seeded, so a timeout replays exactly)",
  "response fields other than type, opaque and (for reads/AMOs) data are not judged, except by the "
  "metamorphic comparison, which compares whole responses",
]
QUICK_S = 240
THOROUGH_S = 780

NBYTES = 4096                 # memory size handed to the memories
WIN = 64                      # request window
REGION = 20                   # private region per port in `disjoint` cases
GUARD = 8
BASES = [0, 0x7e4, NBYTES - WIN - 4]
STALLS = [0.0, 0.3, 0.7, 0.9]
BOUNDARY_DATA = [0, 1, 0x7f, 0x80, 0xff, 0x100, 0x7fff, 0x8000, 0xffff, 0x7fffffff, 0x80000000,
                 0x80000001, 0xfffffffe, 0xffffffff, 0x01020304, 0xa1b2c3d4]
AMO_OFFS = [0, 4, 8, 16]
KNOWN_BP_SIG = "stream_rtl:request_processed_more_than_once_under_backpressure"
EXCLUDE_NAME = "rtl_source_made_polite_to_avoid_held_request_under_backpressure"

ReqT, RespT = mk_mem_msg(8, 32, 32)


class HarnessBug(Exception):
  pass


class _StopSearch(KeyboardInterrupt):
  """raised from the test body when the wall budget is gone: leaves Hypothesis at once (also in the
  middle of shrinking; the smallest violation seen so far is already recorded by ctx.judge)"""


# ---------------------------------------------------------------------------------------
# harness-side sources and sinks
# ---------------------------------------------------------------------------------------

class SrcCL(Component):
  """sends msgs[k] after gaps[k % len] idle cycles, when the callee is ready"""

  def construct(s, msgs, gaps):
    s.send = CallerIfcCL()
    s.msgs = list(msgs)
    s.gaps = list(gaps)
    s.idx = 0
    s.count = s.gaps[0]

    @update_once
    def up_src_cl():
      if not s.reset:
        if s.count > 0:
          s.count -= 1
        elif s.idx < len(s.msgs):
          if s.send.rdy():
            s.send(s.msgs[s.idx])
            s.idx += 1
            s.count = s.gaps[s.idx % len(s.gaps)]

  def done(s):
    return s.idx >= len(s.msgs)


class SinkCL(Component):
  """mode 'count': busy for pat[k % len] cycles before taking message k;
     mode 'mask' : ready in cycle c iff pat[c % len]"""

  def construct(s, mode, pat):
    s.mode = mode
    s.pat = list(pat)
    s.got = []
    s.cyc = 0
    s.count = s.pat[0] if mode == "count" else 0
    s.rdy_now = False
    s.called = False

    @update_once
    def up_sink_cl():
      if s.mode == "count":
        if s.called:
          s.count = s.pat[len(s.got) % len(s.pat)]
        elif s.count > 0:
          s.count -= 1
        s.rdy_now = s.count == 0
      else:
        s.rdy_now = bool(s.pat[s.cyc % len(s.pat)])
      s.called = False
      if not s.reset:
        s.cyc += 1

    s.add_constraints(
      U(up_sink_cl) < M(s.recv),
      U(up_sink_cl) < M(s.recv.rdy),
    )

  @non_blocking(lambda s: s.rdy_now)
  def recv(s, msg):
    if not s.rdy_now or s.called:
      raise HarnessBug("sink method called although not ready / twice in a cycle")
    s.got.append((int(msg.type_), int(msg.opaque), int(msg.test), int(msg.len), int(msg.data)))
    s.called = True


class TopCL(Component):
  def construct(s, nports, stall, lat, msgs, gaps, sinks):
    s.srcs = [SrcCL(msgs[i], gaps[i]) for i in range(nports)]
    s.mem = MagicMemoryCL(nports, [(ReqT, RespT)] * nports, stall, lat, NBYTES)
    s.sinks = [SinkCL(sinks[i]["mode"], sinks[i]["pat"]) for i in range(nports)]
    for i in range(nports):
      s.srcs[i].send //= s.mem.ifc[i].req
      s.mem.ifc[i].resp //= s.sinks[i].recv


class SrcRTL(Component):
  """val/rdy source.  Normal mode: offers msgs[k] (val high, message stable) after
  gaps[k % len] idle cycles until it is taken.  Polite mode: raises val only in cycles in
  which rdy is high (val = pending & rdy), so a request is never held against back-pressure."""

  def construct(s, msgs, gaps, polite):
    s.send = SendIfcRTL(ReqT)
    s.msgs = list(msgs)
    s.gaps = list(gaps)
    s.idx = 0
    s.count = 0

    if not polite:
      @update_ff
      def up_src_rtl():
        if s.reset:
          s.idx = 0
          s.count = s.gaps[0]
          s.send.val <<= 0
        else:
          if s.send.val & s.send.rdy:
            s.idx += 1
            s.count = s.gaps[s.idx % len(s.gaps)]
          if s.count > 0:
            s.count -= 1
            s.send.val <<= 0
          elif s.idx < len(s.msgs):
            s.send.val <<= 1
            s.send.msg <<= s.msgs[s.idx]
          else:
            s.send.val <<= 0
    else:
      s.pend = Wire()

      @update_ff
      def up_src_rtl_polite():
        if s.reset:
          s.idx = 0
          s.count = s.gaps[0]
          s.pend <<= 0
        else:
          if s.pend & s.send.rdy:
            s.idx += 1
            s.count = s.gaps[s.idx % len(s.gaps)]
          if s.count > 0:
            s.count -= 1
            s.pend <<= 0
          elif s.idx < len(s.msgs):
            s.pend <<= 1
            s.send.msg <<= s.msgs[s.idx]
          else:
            s.pend <<= 0

      @update
      def up_src_rtl_val():
        s.send.val @= s.pend & s.send.rdy

  def done(s):
    return s.idx >= len(s.msgs)


class SinkRTL(Component):
  """registered rdy; same two modes as SinkCL"""

  def construct(s, mode, pat):
    s.recv = RecvIfcRTL(RespT)
    s.mode = mode
    s.pat = list(pat)
    s.got = []
    s.cyc = 0
    s.count = 0

    @update_ff
    def up_sink_rtl():
      if s.reset:
        s.cyc = 0
        s.count = s.pat[0] if s.mode == "count" else 0
        s.recv.rdy <<= 0
      else:
        if s.recv.val & s.recv.rdy:
          m = s.recv.msg
          s.got.append((int(m.type_), int(m.opaque), int(m.test), int(m.len), int(m.data)))
          if s.mode == "count":
            s.count = s.pat[len(s.got) % len(s.pat)]
        if s.mode == "count":
          if s.count > 0:
            s.count -= 1
            s.recv.rdy <<= 0
          else:
            s.recv.rdy <<= 1
        else:
          s.recv.rdy <<= s.pat[s.cyc % len(s.pat)]
        s.cyc += 1


class TopRTL(Component):
  def construct(s, nports, stall, lat, msgs, gaps, sinks, polite):
    s.srcs = [SrcRTL(msgs[i], gaps[i], polite) for i in range(nports)]
    s.mem = MagicMemoryRTL(nports, [(ReqT, RespT)] * nports, stall, lat, NBYTES)
    s.sinks = [SinkRTL(sinks[i]["mode"], sinks[i]["pat"]) for i in range(nports)]
    for i in range(nports):
      s.srcs[i].send //= s.mem.ifc[i].req
      s.mem.ifc[i].resp //= s.sinks[i].recv


# ---------------------------------------------------------------------------------------
# running one configuration
# ---------------------------------------------------------------------------------------

def opaque_of(port, k):
  return (port * 83 + k) & 0xFF


def has_backpressure(cfg):
  return any(any(x != (0 if sk["mode"] == "count" else 1) for x in sk["pat"]) for sk in cfg["sinks"])


def cycle_bound(kind, cfg, streams):
  sf = 1.0 / (1.0 - cfg["stall"])
  worst = 0
  for i, reqs in enumerate(streams):
    n = len(reqs)
    g = cfg["gaps"][i]
    sk = cfg["sinks"][i]
    if sk["mode"] == "count":
      sink_cost = n * (max(sk["pat"]) + 1)
    else:
      sink_cost = n * len(sk["pat"]) * 2
    worst = max(worst, n * (max(g) + 1) + n * (sf + cfg["lat"] + 3) + sink_cost)
  return 300 + int(4 * worst)


def drain_cycles(cfg):
  d = cfg["lat"] + 10
  for sk in cfg["sinks"]:
    d = max(d, cfg["lat"] + 6 + (max(sk["pat"]) if sk["mode"] == "count" else len(sk["pat"])))
  return d


def run_config(kind, base, streams, cfg):
  """simulate; returns dict(log, resps, image, image_lo, cycles, error, pipe_full)"""
  nports = len(streams)
  msgs = []
  for i, reqs in enumerate(streams):
    ms = []
    for k, (t, off, l, d) in enumerate(reqs):
      ms.append(ReqT(mm.TYPE_CODE[t], opaque_of(i, k), base + off, mm.len_field(l), d))
    msgs.append(ms)

  if kind == "cl":
    th = TopCL(nports, cfg["stall"], cfg["lat"], msgs, cfg["gaps"], cfg["sinks"])
  else:
    th = TopRTL(nports, cfg["stall"], cfg["lat"], msgs, cfg["gaps"], cfg["sinks"],
                bool(cfg.get("polite")))
  th.elaborate()

  # ---- observation: wrap the FL memory's methods on the instance --------------------------
  fl = th.mem.mem
  o_read, o_write, o_amo = fl.read, fl.write, fl.amo
  log = []
  st_ = {"depth": 0, "cyc": 0}

  def port_of_caller():
    f = sys._getframe(2)
    if f.f_code.co_name != "up_mem" or not isinstance(f.f_locals.get("i"), int):
      raise HarnessBug(f"MagicMemoryFL method called from {f.f_code.co_name} "
                       f"({f.f_code.co_filename}:{f.f_lineno}); cannot attribute it to a port")
    return f.f_locals["i"]

  def hint_of(p):
    # val/rdy memory: the request being processed is the one the source of that port offers in
    # this cycle, i.e. msgs[number of requests taken so far]; the CL memory queues requests, so
    # there the attribution is by content and order only
    if kind == "rtl" and 0 <= p < nports:
      return th.srcs[p].idx
    return None

  def w_read(addr, nbytes):
    if st_["depth"]:
      return o_read(addr, nbytes)
    p = port_of_caller()
    st_["depth"] += 1
    try:
      r = o_read(addr, nbytes)
    finally:
      st_["depth"] -= 1
    log.append((p, "rd", int(addr), int(nbytes), None, int(r), getattr(r, "nbits", None), st_["cyc"],
                hint_of(p)))
    return r

  def w_write(addr, nbytes, data):
    if st_["depth"]:
      return o_write(addr, nbytes, data)
    p = port_of_caller()
    st_["depth"] += 1
    try:
      r = o_write(addr, nbytes, data)
    finally:
      st_["depth"] -= 1
    log.append((p, "wr", int(addr), int(nbytes), int(data), None, None, st_["cyc"], hint_of(p)))
    return r

  def w_amo(amo, addr, nbytes, data):
    if st_["depth"]:
      return o_amo(amo, addr, nbytes, data)
    p = port_of_caller()
    st_["depth"] += 1
    try:
      r = o_amo(amo, addr, nbytes, data)
    finally:
      st_["depth"] -= 1
    log.append((p, mm.CODE_TYPE.get(int(amo), f"type{int(amo)}"), int(addr), int(nbytes), int(data),
                int(r), getattr(r, "nbits", None), st_["cyc"], hint_of(p)))
    return r

  fl.read, fl.write, fl.amo = w_read, w_write, w_amo

  if kind == "cl":
    for i, k in enumerate(cfg.get("stall_seeds") or []):
      if k is not None:
        th.mem.req_stalls[i].stall_rgen = random.Random(k)

  random.seed(cfg["sched_seed"])
  if cfg.get("sched") == "simple":
    th.apply(SimpleSimPass())
  else:
    th.apply(DefaultPassGroup())
  th.sim_reset()

  out = {"log": log, "error": None, "pipe_full": 0, "timeout": False}
  bound = cycle_bound(kind, cfg, streams)
  drain = drain_cycles(cfg)
  left = None
  cyc = 0
  rtl_pipes = [q.recv.rdy for q in th.mem.resp_qs] if kind == "rtl" else []
  rtl_vals = [q.send.val for q in th.mem.req_stalls] if kind == "rtl" else []
  try:
    while True:
      if left is None:
        if all(s.done() for s in th.srcs) and \
           all(len(th.sinks[i].got) >= len(streams[i]) for i in range(nports)):
          left = drain
        elif cyc >= bound:
          out["timeout"] = True
          break
      else:
        left -= 1
        if left <= 0:
          break
      th.sim_tick()
      cyc += 1
      st_["cyc"] = cyc
      for r, v in zip(rtl_pipes, rtl_vals):
        if v and not r:
          out["pipe_full"] += 1
  except HarnessBug:
    raise
  except Exception as e:                      # raised by the simulated model
    tb = traceback.extract_tb(e.__traceback__)
    inner = tb[-1]
    out["error"] = (type(e).__name__, f"{type(e).__name__}: {e} at {inner.filename.split('/')[-1]}:"
                                      f"{inner.lineno} in {inner.name} (cycle {cyc})")
  out["cycles"] = cyc
  out["resps"] = [list(sk.got) for sk in th.sinks]
  out["sent"] = [s.idx for s in th.srcs]
  lo = max(0, base - GUARD)
  hi = min(NBYTES - 1, base + WIN + GUARD)
  out["image_lo"] = lo
  out["image"] = list(th.mem.read_mem(lo, hi - lo))
  return out


# ---------------------------------------------------------------------------------------
# oracle
# ---------------------------------------------------------------------------------------

def expected_call(base, r):
  """the single MagicMemoryFL call request r = (type, off, len, data) stands for"""
  t, off, l, d = r
  if t == "rd":
    return ("rd", base + off, l, None)
  if t == "wr":
    return ("wr", base + off, l, d & ((1 << (8 * l)) - 1))
  return (t, base + off, l, d & ((1 << (8 * l)) - 1))


def judge_run(kind, base, streams, cfg, obs):
  """-> (verdicts, info).  verdicts: list of (signature, detail), most fundamental first."""
  K = "mem_cl" if kind == "cl" else "stream_rtl"
  V = []
  nports = len(streams)
  bp = has_backpressure(cfg)
  info = {"straddle_reads": 0, "shared_amos": 0, "repeats": 0}

  if obs["error"] is not None:
    V.append((f"{K}:exception_in_simulation:{obs['error'][0]}", obs["error"][1]))

  # ---- 1. per-port log == the port's request sequence, each exactly once --------------------
  log = obs["log"]
  last_entry = {}                    # (port, k) -> index of the last log entry of request k
  for p in range(nports):
    exp = [expected_call(base, r) for r in streams[p]]
    j = 0
    bad = None
    repeats = 0
    for idx, e in enumerate(log):
      if e[0] != p:
        continue
      # (the data operand is compared modulo 2^(8*nbytes): only those bytes can reach the memory)
      call = (e[1], e[2], e[3], None if e[4] is None else e[4] & ((1 << (8 * e[3])) - 1))
      h = e[8]
      if h is not None and (h >= len(exp) or call != exp[h] or h not in (j, j - 1)):
        bad = (idx, e, exp[j] if j < len(exp) else None)
        break
      if j < len(exp) and call == exp[j] and h in (None, j):
        last_entry[(p, j)] = idx
        j += 1
      elif j > 0 and call == exp[j - 1] and h in (None, j - 1):
        last_entry[(p, j - 1)] = idx
        repeats += 1
        if repeats == 1:
          first_rep = (idx, j - 1)
      else:
        bad = (idx, e, exp[j] if j < len(exp) else None)
        break
    info["repeats"] += repeats
    if (repeats and kind == "cl") or bad is not None:
      for key in [key for key in last_entry if key[0] == p]:
        del last_entry[key]
    if bad is not None:
      V.append((f"{K}:processed_call_differs_from_request",
                f"port {p}: log entry {bad[0]} is {bad[1][1:5]} (cycle {bad[1][7]}), next unprocessed "
                f"request #{j} stands for {bad[2]}"))
    elif repeats:
      idx, k = first_rep
      V.append((f"{K}:request_processed_more_than_once" + ("_under_backpressure" if bp else ""),
                f"port {p}: request #{k} {streams[p][k]} reached MagicMemoryFL again at log entry {idx} "
                f"(cycle {log[idx][7]}); {repeats} repeated call(s) on this port in total"))
    elif j < len(exp) and not obs["timeout"] and obs["error"] is None:
      V.append((f"{K}:request_never_processed",
                f"port {p}: only {j} of {len(exp)} requests reached MagicMemoryFL although all "
                f"responses arrived"))
  for idx, e in enumerate(log):
    if not (0 <= e[0] < nports):
      V.append((f"{K}:processed_call_differs_from_request", f"log entry {idx} names port {e[0]}"))
      break

  # ---- 2. sequential model applied in logged order -----------------------------------------
  model = mm.RefMem(NBYTES)
  stored_by = {}                     # byte address -> set of ports that stored it
  model_ret = [None] * len(log)
  data_bad = None
  for idx, e in enumerate(log):
    p, t, addr, n, data, ret, rbits = e[:7]
    try:
      if t == "rd":
        if len(model.writers(addr, n)) >= 2:
          info["straddle_reads"] += 1
      elif t != "wr":
        if any(q != p for a in range(addr, addr + n) for q in stored_by.get(a, ())):
          info["shared_amos"] += 1
      want = model.apply(t, addr, n, data)
    except (IndexError, ValueError) as ex:
      V.append((f"{K}:processed_call_differs_from_request", f"log entry {idx} {e[1:5]}: {ex}"))
      break
    if t != "rd":
      for a in range(addr, addr + n):
        stored_by.setdefault(a, set()).add(p)
    model_ret[idx] = want
    if want is not None and data_bad is None and ret != want:
      data_bad = (idx, e, want)
  if data_bad is not None:
    idx, e, want = data_bad
    what = "read_data" if e[1] == "rd" else "amo_old_value"
    V.append((f"{K}:{what}_differs_from_model",
              f"log entry {idx}: port {e[0]} {e[1]} addr={e[2]:#x} n={e[3]} data={e[4]} returned "
              f"{e[5]:#x}, byte-array model says {want:#x}"))

  # ---- 3. responses: count, order, type, opaque, data ---------------------------------------
  for p in range(nports):
    got = obs["resps"][p]
    reqs = streams[p]
    if len(got) > len(reqs):
      V.append((f"{K}:more_responses_than_requests",
                f"port {p}: {len(got)} responses for {len(reqs)} requests; extra: {got[len(reqs)]}"))
    elif len(got) < len(reqs) and obs["error"] is None:
      V.append((f"{K}:responses_missing",
                f"port {p}: {len(got)} of {len(reqs)} responses after {obs['cycles']} cycles "
                f"(requests accepted: {obs['sent'][p]}, timeout={obs['timeout']})"))
    for k, (r, g) in enumerate(zip(reqs, got)):
      t, off, l, d = r
      if g[0] != mm.TYPE_CODE[t] or g[1] != opaque_of(p, k):
        V.append((f"{K}:response_type_or_opaque_not_in_request_order",
                  f"port {p}: response #{k} has type={g[0]} opaque={g[1]}, request #{k} is {t} "
                  f"(code {mm.TYPE_CODE[t]}) opaque={opaque_of(p, k)}"))
        break
      if t != "wr" and (p, k) in last_entry:
        want = model_ret[last_entry[(p, k)]]
        if want is not None and g[4] != want:
          what = "read" if t == "rd" else "amo"
          V.append((f"{K}:{what}_response_data_differs_from_model",
                    f"port {p}: response #{k} to {r} carries data {g[4]:#x}; the model value at the "
                    f"point the request was processed (log entry {last_entry[(p, k)]}) is {want:#x}"))
          break

  # ---- 4. final image ------------------------------------------------------------------------
  lo = obs["image_lo"]
  want_img = model.image(lo, len(obs["image"]))
  if want_img != obs["image"]:
    diff = [(lo + k, obs["image"][k], want_img[k]) for k in range(len(want_img))
            if obs["image"][k] != want_img[k]]
    V.append((f"{K}:final_image_differs_from_model",
              f"{len(diff)} byte(s) differ; first (addr, read_mem, model) = "
              f"({diff[0][0]:#x}, {diff[0][1]:#x}, {diff[0][2]:#x}); window base {base:#x}"))
  info["bp"] = bp
  # total latency > 1 cycle: MagicMemoryCL latency >= 2, stream memory extra_latency >= 1
  info["config_nontrivial"] = cfg["lat"] > (1 if kind == "cl" else 0) or cfg["stall"] > 0 or bp
  return V, info


def evaluate(case):
  """-> (verdicts, infos, observations) for a whole case (one or two timing configurations)"""
  kind, base, streams = case["kind"], case["base"], case["streams"]
  cfgs = [case["cfg"]] + ([case["alt"]] if case.get("alt") else [])
  V, infos, obss = [], [], []
  for cfg in cfgs:
    obs = run_config(kind, base, streams, cfg)
    v, info = judge_run(kind, base, streams, cfg, obs)
    V.extend(v)
    infos.append(info)
    obss.append(obs)
  if len(cfgs) == 2 and case.get("disjoint"):
    clean = all(o["error"] is None and not o["timeout"] for o in obss) and \
            all(i["repeats"] == 0 for i in infos)
    if clean:
      K = "mem_cl" if kind == "cl" else "stream_rtl"
      for p in range(len(streams)):
        a, b = obss[0]["resps"][p], obss[1]["resps"][p]
        if a != b:
          k = next((k for k in range(min(len(a), len(b))) if a[k] != b[k]), min(len(a), len(b)))
          V.append((f"{K}:response_contents_depend_on_timing",
                    f"port {p} (private address region): response #{k} is "
                    f"{a[k] if k < len(a) else None} under cfg and {b[k] if k < len(b) else None} under "
                    f"alt (fields: type, opaque, test, len, data)"))
          break
  return V, infos, obss


def replay(case):
  V, _, _ = evaluate(case)
  return V[0] if V else None


# ---------------------------------------------------------------------------------------
# generator
# ---------------------------------------------------------------------------------------

def data_st():
  return st.one_of(st.sampled_from(BOUNDARY_DATA), st.integers(0, 0xFFFFFFFF))


@st.composite
def request_st(draw, lo, hi):
  """one request inside the byte region [lo, hi) (offsets relative to the window base)"""
  k = draw(st.integers(0, 19))
  if k < 15:
    l = draw(st.integers(1, 4))
    if draw(st.integers(0, 3)) > 0:
      off = lo + draw(st.integers(0, min(9, hi - lo - l)))
    else:
      off = draw(st.integers(lo, hi - l))
    return ["rd" if k < 8 else "wr", off, l, draw(data_st())]
  op = draw(st.sampled_from(mm.AMOS))
  off = lo + draw(st.sampled_from(AMO_OFFS))
  return [op, off, 4, draw(data_st())]


@st.composite
def sink_st(draw, lat):
  k = draw(st.integers(0, 5))
  if k == 0:
    return {"mode": "count", "pat": [0]}
  if k <= 3:
    deep = lat + 3
    return {"mode": "count",
            "pat": draw(st.lists(st.one_of(st.integers(0, 3), st.integers(deep, 12)), min_size=1,
                                 max_size=4))}
  runs = draw(st.lists(st.tuples(st.integers(1, 3), st.integers(0, 10)), min_size=1, max_size=3))
  pat = []
  for on, off in runs:
    pat += [1] * on + [0] * off
  return {"mode": "mask", "pat": pat}


@st.composite
def timing_st(draw, kind, nports):
  lat = draw(st.integers(0, 5 if kind == "cl" else 4))
  cfg = {
    "lat": lat,
    "stall": draw(st.sampled_from(STALLS)),
    "gaps": [draw(st.one_of(st.just([0]), st.lists(st.integers(0, 5), min_size=1, max_size=4)))
             for _ in range(nports)],
    "sinks": [draw(sink_st(lat)) for _ in range(nports)],
    "sched": draw(st.sampled_from(["default", "default", "simple"])),
    "sched_seed": draw(st.integers(0, 0xFFFF)),
  }
  if kind == "cl":
    cfg["stall_seeds"] = [draw(st.one_of(st.none(), st.integers(0, 0xFFFF))) for _ in range(nports)]
  else:
    cfg["polite"] = draw(st.integers(0, 3)) == 0
  return cfg


@st.composite
def cases(draw):
  kind = draw(st.sampled_from(["cl", "rtl"]))
  nports = draw(st.integers(1, 3 if kind == "cl" else 2))
  disjoint = draw(st.integers(0, 2)) == 0
  streams = []
  for p in range(nports):
    lo, hi = (p * REGION, (p + 1) * REGION) if disjoint else (0, WIN)
    streams.append(draw(st.lists(request_st(lo, hi), min_size=0 if nports > 1 else 1, max_size=13)))
  if not any(streams):
    streams[0] = [draw(request_st(0, REGION))]
  return {
    "kind": kind,
    "base": draw(st.sampled_from(BASES)),
    "disjoint": disjoint,
    "streams": streams,
    "cfg": draw(timing_st(kind, nports)),
    "alt": draw(timing_st(kind, nports)) if disjoint else None,
  }


def apply_exclusion(case):
  """generator switch for the confirmed finding KNOWN_BP_SIG: stream-RTL configurations whose
  sink exerts back-pressure get a polite source (val only while rdy), which keeps the
  back-pressure on the response pipe but never holds a request against it.  Returns the number
  of configurations rewritten."""
  n = 0
  if case["kind"] != "rtl":
    return 0
  for key in ("cfg", "alt"):
    cfg = case.get(key)
    if cfg and not cfg.get("polite") and has_backpressure(cfg):
      cfg["polite"] = True
      n += 1
  return n


# ---------------------------------------------------------------------------------------
# shard driver
# ---------------------------------------------------------------------------------------

def one(ctx, case, shrinking=False):
  V, infos, obss = evaluate(case)
  if shrinking:                        # Hypothesis is minimising a failure: not part of the coverage
    ctx.label("evaluations_while_shrinking_not_counted")
    for v in V:
      ctx.judge(case, v)
    return
  ctx.count()
  kind = case["kind"]
  ctx.label("kind_" + kind)
  ctx.label(f"{kind}_nports_{len(case['streams'])}")
  if case.get("alt"):
    ctx.label("metamorphic_pairs_disjoint_ports")
  nontriv = False
  cfgs = [case["cfg"]] + ([case["alt"]] if case.get("alt") else [])
  for cfg, info, obs in zip(cfgs, infos, obss):
    ctx.label("runs")
    ctx.label(f"{kind}_lat_{cfg['lat']}")
    ctx.label(f"stall_{cfg['stall']}")
    ctx.label("sched_" + cfg.get("sched", "default"))
    if info["bp"]:
      ctx.label(f"{kind}_sink_backpressure")
    if cfg.get("polite"):
      ctx.label("rtl_polite_source")
    if obs["pipe_full"]:
      ctx.label("rtl_runs_with_request_held_against_full_response_pipe")
    if obs["timeout"]:
      ctx.label("runs_hit_cycle_bound")
    ctx.label("requests_processed", len(obs["log"]))
    ctx.label("simulated_cycles", obs["cycles"])
    ctx.label("straddling_reads", info["straddle_reads"])
    ctx.label("amos_on_bytes_stored_by_another_port", info["shared_amos"])
    if info["config_nontrivial"] and (info["straddle_reads"] or info["shared_amos"]):
      nontriv = True
  if nontriv:
    ctx.nontriv(sha12(case))
  for v in V:
    ctx.judge(case, v)


def run_shard(ctx):
  switch = any(e.get("kind") == "known" and e.get("signature") == KNOWN_BP_SIG for e in ctx.known)
  total = ctx.n(4800, 160000)
  t_start = time.time()
  budget = max(1.0, ctx.deadline - t_start)

  def phase(name, n, salt, excl, stop_gen, stop_shrink):
    state = {"failed": False}          # set by the first violation: from then on Hypothesis shrinks

    @seed(ctx.hseed(salt))
    @ctx.settings(n)
    @given(cases())
    def t(case):
      shrinking = state["failed"]
      now = time.time()
      if ctx.out_of_time() or now > (stop_shrink if shrinking else stop_gen):
        raise _StopSearch()
      case = copy.deepcopy(case)
      if excl:
        k = apply_exclusion(case)
        if k and not shrinking:
          ctx.exclude(EXCLUDE_NAME, k)
      try:
        one(ctx, case, shrinking)
      except Violation:
        state["failed"] = True
        raise
      if not shrinking and ctx.evaluations % 37 == 1:
        ctx.sample({"kind": case["kind"], "cfg": case["cfg"], "streams": case["streams"]})

    try:
      ctx.run(t, name)
    except _StopSearch:
      pass

  # phase A: unrestricted generator; generation ends after 45% of the budget, shrinking of a
  # failure after 70%, so that phase B always gets its share
  phase("c18_a", max(1, total // 2), 0, False, t_start + 0.45 * budget, t_start + 0.70 * budget)
  found = any(v["signature"] == KNOWN_BP_SIG for v in ctx.violations)
  # phase B: same generator; the exclusion switch is on iff the back-pressure finding is
  # registered as known or has just been found, so that the search continues behind it
  phase("c18_b", max(1, total - total // 2), 1, switch or found, ctx.deadline, ctx.deadline)
  ctx.extra["switch_on"] = bool(switch or found)


def extra_coverage(merged):
  return {
    "exclusion_switch_active_in_shards": sum(1 for x in merged["extra"].get("switch_on", []) if x),
    "note": "phase A uses the unrestricted generator; phase B rewrites stream-RTL configurations with "
            "sink back-pressure to a polite source only when the finding " + KNOWN_BP_SIG + " is "
            "registered as known or was found in phase A of the same shard",
  }
