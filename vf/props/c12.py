"""C12 -- Yosys-compatible translation is equivalent, with a faithful flat port map."""
import re

from hypothesis import given, seed, strategies as st

from vf.gen import rtl_gen
from vf.props import c03

ID = "C12"
LEVEL = "translation_validation"
RULE = ("program = generated translatable RTL design (as in C03, struct and nested/list-field ports emphasised) + input "
        "sequence, translated by YosysTranslationPass; the module header must consist of exactly the flattened leaves of "
        "the PyMTL ports (path segments joined by '__', list index i as '__i') with the leaf widths; inputs are applied "
        "leaf by leaf as slices of the packed PyMTL value (independent layout spec of C06) and every output leaf is "
        "compared with the corresponding slice of the PyMTL packed value after every evaluation and clock edge; the text "
        "must parse, declare every identifier once and have exactly one driver per variable bit. Phase A uses the full "
        "generator; phase B keeps struct types on top-level input ports only (the shape behind the known finding) so "
        "that the search continues; non-trivial = accepted design with a flattened struct port whose outputs change and "
        "that contains a width-sensitive construct; distinct by design+inputs")
ASSUMPTIONS = list(c03.ASSUMPTIONS) + [
  "flattened-port naming convention as documented by the import pass / VNameMangle tests; a header mismatch is reported as "
  "its own signature (yosys:flat_port_map)",
]
QUICK_S = 240
THOROUGH_S = 1500

KNOWN_SIG = "yosys:drivers:struct_signal_forms_inconsistent"


def struct_signal_names(design):
  """names (as they appear in emitted identifiers) of every struct-typed port/wire and child struct port"""
  out = set()

  def add(prefix, n):
    full = (prefix + n).replace(".", "__")                          # interface member: ifc__member
    # an index of a list (of signals or of components) appears either as __i (that element) or not at all (the list
    # as a whole: base, base__field{element i}); every combination over the indices of the path
    groups = re.split(r"(\[\d+\])", full)
    forms = [""]
    for g in groups:
      if g.startswith("["):
        forms = [f + "__" + g[1:-1] for f in forms] + forms
      else:
        forms = [f + g for f in forms]
    out.update(forms)
  for cn, c in design["classes"].items():
    for n, d, t in c["ports"]:
      if t[0] == "s": add("", n)
    for n, t in c["wires"]:
      if t[0] == "s": add("", n)
    for iname, ccn in c["children"]:
      for n, d, t in design["classes"][ccn]["ports"]:
        if t[0] == "s": add(f"{iname}__", n)
  return out


def judge(case, stats=None):
  v = c03.judge_backend(case, "yosys", stats)
  if case.get("phase") == "B":
    # struct types only on top-level input ports: the known flaw of the flattening cannot show, so every driver
    # problem is reported under its own signature (a defect in the struct <-> flat-port wiring must not hide behind it)
    return v
  if v is not None and v[0].startswith("yosys:drivers:"):
    # driver problems that concern only the packed / per-field / leaf forms of struct-typed signals are the known
    # structural flaw of the Yosys flattening; anything touching a plain Bits signal keeps its own signature
    names = struct_signal_names(case["design"])
    vars_ = re.findall(r"(?:drivers? for|driver for) ([A-Za-z_][A-Za-z_0-9]*)", v[1])
    if vars_ and all(any(x == n or x.startswith(n + "__") for n in names) for x in vars_):
      return (KNOWN_SIG, v[1])
  return v


@st.composite
def cases_b(draw):
  design = draw(rtl_gen.designs(translatable=True, structs="top_in_only", wide=draw(st.integers(0, 4)) == 0, max_steps=5,
                                ifcs=draw(st.booleans())))
  seq = draw(rtl_gen.input_seqs(design, ncycles=draw(st.integers(3, 7))))
  return {"design": design, "seq": seq, "phase": "B"}


def run_shard(ctx):
  import vf.props.c12 as me
  c03.run_shard_for(ctx, me, 800, 12000)
  if ctx.violations: return

  @seed(ctx.hseed(1))
  @ctx.settings(ctx.n(1600, 30000))
  @given(cases_b())
  def t(case):
    if ctx.out_of_time(): return
    ctx.count()
    for f_ in rtl_gen.features(case["design"]): ctx.label(f_)
    ctx.exclude("struct_types_restricted_to_top_level_inputs")
    stats = {}
    v = judge(case, stats)
    if stats.get("accepted"): ctx.label("accepted")
    if stats.get("rejected"): ctx.label("rejected_" + stats["rejected"])
    if any(t_[0] == "s" for n, d, t_ in case["design"]["classes"]["Top"]["ports"]): ctx.label("phaseB_struct_input_port")
    if v is None and stats.get("accepted") and stats.get("changes") and c03.width_sensitive(case["design"]) and \
       any(t_[0] == "s" for n, d, t_ in case["design"]["classes"]["Top"]["ports"]):
      ctx.nontriv([case["design"], case["seq"]])
    ctx.judge(case, v)
  ctx.run(t, "c12b")
  if ctx.violations: return
  from vf.props import c13

  @seed(ctx.hseed(2))
  @ctx.settings(ctx.n(320, 6000))
  @given(c13.default_arg_cases())
  def tp(case):
    if ctx.out_of_time(): return
    ctx.count()
    ctx.label("parametrised_component_family")
    case = dict(case); case["family"] = "param"
    v = judge_param(case)
    if v is None and len({tuple(k[2:]) for k in case["insts"]}) >= 2: ctx.nontriv(["param", case["insts"], case.get("set_param")])
    ctx.judge(case, v)
  ctx.run(tp, "c12p")


def judge_param(case):
  from vf.props import c13
  v = c13.judge_b(case, backends=("yosys",))
  return None if v is None else ("param:" + v[0], v[1])


def replay(case):
  if case.get("family") == "param": return judge_param(case)
  return judge(case)


extra_coverage = c03.extra_coverage
