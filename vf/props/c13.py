"""C13 -- translation is deterministic and module names never alias different hardware."""
import hashlib
import importlib.util
import json
import os
import subprocess
import sys

from hypothesis import given, seed, strategies as st

from vf.gen import rtl_gen

ID = "C13"
LEVEL = "exploration"
RULE = ("case A = batch of generated translatable designs: each is translated by both backends in fresh "
        "subprocesses (PYTHONHASHSEED 0, 1 and a drawn value; quick tier: 0 and a drawn value; identical file paths) and in-process; the SHA-256 of "
        "every emitted file must coincide; one batch in three also holds a black-box VerilogPlaceholder with 2-6 library files (v_libs) and sometimes a second instance with another construct() parameter, translated in the fresh processes; every module name of that text must stand for one body. case B = generated naming-focused hierarchy: 2-4 instances of parametrised leaf "
        "classes (ints, bools, strs, Bits values, Bits types, None, lists, long lists that trigger hashing; values whose "
        "str() coincide such as 1/'1'/b1(1)) and of factory-made classes that share __name__ but differ in a closure "
        "value, or (one case in three) of one class with three defaulted construct() arguments of which each instance supplies another subset, some overridden afterwards with set_param; the emitted text must define every module once, define every instantiated module, use legal unique "
        "identifiers (E2 structural check), and instances that share a module definition must behave like it: the "
        "translated hierarchy executed by E2 must equal the PyMTL simulation on every output (a name collision makes "
        "two different instances share the first definition). non-trivial A = design with >=3 connections/blocks/ports; "
        "non-trivial B = >=2 instances whose classes or parameters differ; distinct by case")
ASSUMPTIONS = [
  "three hash seeds per batch, not all; address-dependent orders vary only as far as the OS varies them between processes",
  "aliasing is detected behaviourally (E2 execution of the emitted hierarchy vs PyMTL) and by comparing the shared module "
  "text with a stand-alone translation of each instance's component",
]
QUICK_S = 240
THOROUGH_S = 1500

WORKER = os.path.join(os.path.dirname(os.path.abspath(__file__)), "c13_worker.py")


# ---------------------------------------------------------------------------------------------------
# case A: determinism
# ---------------------------------------------------------------------------------------------------

def run_worker(batch, workdir, hashseed):
  bp = os.path.join(workdir, "batch.json")
  with open(bp, "w") as f: json.dump(batch, f)
  env = dict(os.environ); env["PYTHONHASHSEED"] = str(hashseed)
  from vf.runner import REPO
  p = subprocess.run([sys.executable, WORKER, bp, workdir, REPO], capture_output=True, text=True, env=env, timeout=600)
  for line in p.stdout.splitlines():
    if line.startswith("C13RESULT "): return json.loads(line[10:])
  raise RuntimeError(f"c13 worker failed (hashseed {hashseed}): {p.stderr[-1500:]}")


def in_process(batch, workdir):
  """same as the worker, but in this process (twice)"""
  from pymtl3.passes.backends.verilog import VerilogTranslationPass
  from pymtl3.passes.backends.yosys import YosysTranslationPass
  from vf.gen.rtl_render import load_design
  out = []
  cwd = os.getcwd()
  os.chdir(workdir)
  try:
    for i, d in enumerate(batch["designs"]):
      res = []
      for P in (VerilogTranslationPass, YosysTranslationPass):
        Top, src, cleanup = load_design(d, None, workdir, tag=f"d{i}", modname=f"vfc13_ir_{i}")
        try:
          top = Top(); top.elaborate(); top.set_metadata(P.enable, True)
          try:
            top.apply(P())
            path = top.get_metadata(P.translated_filename)
            with open(path, "rb") as f: res.append(hashlib.sha256(f.read()).hexdigest())
            os.remove(path)
          except Exception as ex:
            res.append("rejected:" + type(ex).__name__)
        finally:
          cleanup()
      out.append(res)
  finally:
    os.chdir(cwd)
  return out


PLACEHOLDER_SRC = '''
import os
from pymtl3 import *
from pymtl3.passes.backends.verilog import VerilogPlaceholder, VerilogPlaceholderPass
LIBS = {libs!r}
_here = os.getcwd()
for _l in LIBS:
  with open( os.path.join( _here, _l + ".v" ), "w" ) as _f:
    _f.write( "module %s #( parameter p_nbits = 1 )( input logic [p_nbits-1:0] in_, output logic [p_nbits-1:0] out );\\n  assign out = in_;\\nendmodule\\n" % _l )
with open( os.path.join( _here, "VStage.v" ), "w" ) as _f:
  _f.write( "module VStage #( parameter nbits = 8 )( input logic clk, input logic reset, input logic [nbits-1:0] in_, output logic [nbits-1:0] out );\\n" )
  _prev = "in_"
  for _i, _l in enumerate( LIBS ):
    _f.write( "  logic [nbits-1:0] t%d;\\n  %s #(nbits) u%d ( .in_(%s), .out(t%d) );\\n" % ( _i, _l, _i, _prev, _i ) )
    _prev = "t%d" % _i
  _f.write( "  assign out = %s;\\nendmodule\\n" % _prev )

class VStage( VerilogPlaceholder, Component ):
  def construct( s, nbits={nbits} ):
    s.in_ = InPort( nbits )
    s.out = OutPort( nbits )
    s.set_metadata( VerilogPlaceholderPass.src_file, os.path.join( _here, "VStage.v" ) )
    s.set_metadata( VerilogPlaceholderPass.v_libs, [ os.path.join( _here, l + ".v" ) for l in LIBS ] )

class Top( Component ):
  def construct( s ):
    s.in_ = InPort( {nbits} )
    s.out = OutPort( {nbits} )
    s.stage = VStage( {nbits} )
    s.stage.in_ //= s.in_
    s.out //= s.stage.out
    if {nbits2}:
      # a second instance of the same placeholder class with another parameter value
      s.in2 = InPort( {nbits2} )
      s.out2 = OutPort( {nbits2} )
      s.stage2 = VStage( {nbits2} )
      s.stage2.in_ //= s.in2
      s.out2 //= s.stage2.out
'''


def judge_a(case):
  import tempfile, shutil
  wd = tempfile.mkdtemp(prefix="c13_", dir=os.getcwd())
  try:
    batch = {"designs": case["designs"], "sources": case.get("sources", [])}
    runs = []
    for hs in ((0, case["hashseed"]) if case.get("light") else (0, 1, case["hashseed"])):
      r = run_worker(batch, wd, hs)
      if batch["sources"]:
        # source-level designs (black-box placeholders with library files): compared between the fresh processes only
        if runs and r["src"] != runs[0][2]:
          k = [i for i, (a, b) in enumerate(zip(runs[0][2], r["src"])) if a != b][0]
          return ("nondeterministic:verilog", f"source design {k} ({batch['sources'][k].get('what', '')}): {runs[0][0]} -> "
                                              f"{runs[0][2][k][0][:16]}, subprocess PYTHONHASHSEED={hs} -> {r['src'][k][0][:16]}")
        for k, x in enumerate(r["src"]):
          if x[0].startswith("dup:"):
            return ("alias:placeholder_modules_share_a_name", f"source design {k} ({batch['sources'][k].get('what', '')}): module name(s) "
                                                              f"{x[0][4:]} defined more than once with different bodies")
        if any(x[0].startswith("rejected") for x in r["src"]):
          raise AssertionError(f"harness: placeholder design rejected: {r['src']}")
      runs.append((f"subprocess PYTHONHASHSEED={hs}", r["ir"], r["src"]))
    runs = [(a, b) for a, b, _ in runs]
    runs.append(("in-process #1", in_process(batch, wd)))
    if not case.get("light"): runs.append(("in-process #2", in_process(batch, wd)))
    base_name, base = runs[0]
    for name, r in runs[1:]:
      for i, (a, b) in enumerate(zip(base, r)):
        for k, which in enumerate(("verilog", "yosys")):
          if a[k] != b[k]:
            return (f"nondeterministic:{which}", f"design {i}: {base_name} -> {a[k][:16]}, {name} -> {b[k][:16]}")
    return None
  finally:
    shutil.rmtree(wd, ignore_errors=True)


# ---------------------------------------------------------------------------------------------------
# case B: naming family
# ---------------------------------------------------------------------------------------------------

LEAF_SRC = '''
class Leaf{idx}( Component ):
  def construct( s, nbits=8, k=1, mode=None ):
    s.in_ = InPort( mk_bits(nbits) )
    s.out = OutPort( mk_bits(nbits) )
    if isinstance( k, str ):     kk = 5 + len(k)
    elif isinstance( k, Bits ):  kk = 9 + int(k)
    elif isinstance( k, bool ):  kk = 20 + int(k)
    elif k is None:              kk = 0
    elif isinstance( k, list ):  kk = sum(k) % 251
    elif isinstance( k, type ):  kk = k.nbits
    else:                        kk = int(k)
    if mode == "x": kk += 3
    KK = kk % (2**nbits)
    @update
    def up():
      s.out @= ({body}) + KK
'''

FACTORY_SRC = '''
def mk_adder{idx}( kk ):
  class Adder{idx}( Component ):
    def construct( s ):
      s.in_ = InPort( Bits8 )
      s.out = OutPort( Bits8 )
      @update
      def up():
        s.out @= s.in_ + kk
  return Adder{idx}
'''

PARAM_VALUES = ["1", "True", "'1'", "b1(1)", "Bits1(1)", "2", "'2'", "b2(2)", "None", "'None'", "0", "False", "'x'",
                "Bits4", "Bits8", "4", "[1,2]", "[1, 2]", "'[1, 2]'", "[3]", "3", "list(range(40))", "list(range(41))",
                "'a b'", "'a_b'", "-1", "'-1'", "1.0"]


LEAFD_SRC = '''
class LeafD( Component ):
  def construct( s, a=8, b=1, c=2 ):
    s.in_ = InPort( Bits8 )
    s.out = OutPort( Bits8 )
    KK = ( a*7 + b*3 + c ) % 256
    @update
    def up():
      s.out @= s.in_ + KK
'''


@st.composite
def default_arg_cases(draw):
  """instances of one class with three defaulted construct() arguments, each supplying a different subset of them
  (positionally, by keyword, or later through set_param); values come from a small pool that contains the defaults,
  so that a parameter recorded with the wrong value (another argument's default, a dropped override) coincides with
  the true parameters of a sibling"""
  pool = [8, 1, 2, 3]
  n = draw(st.integers(2, 4))
  lines = ["class Top( Component ):", "  def construct( s ):", "    s.in_ = InPort( Bits8 )"]
  insts, setp = [], []
  for j in range(n):
    a, b, c = (draw(st.sampled_from(pool)) for _ in range(3))
    form = draw(st.sampled_from(["", "A", "A,B", "A,B,C", "b=B", "c=C", "A,c=C", "a=A,c=C", "b=B,c=C", "A,b=B", "A,B,c=C", "c=C,a=A"]))
    true = {"a": a if ("A" in form) else 8, "b": b if ("B" in form) else 1, "c": c if ("C" in form) else 2}
    ctor = "LeafD( " + form.replace("A", str(a)).replace("B", str(b)).replace("C", str(c)) + " )"
    if draw(st.integers(0, 3)) == 0:
      # override one argument afterwards, from the top: top.set_param( "top.cJ.construct", b=... )
      positional = {t.strip().lower() for t in form.split(",") if t.strip() and "=" not in t}
      arg = draw(st.sampled_from([x for x in ("a", "b", "c") if x not in positional] or ["c"]))
      if arg not in positional:                  # (an argument given positionally cannot be overridden by keyword)
        val = draw(st.sampled_from(pool))
        setp.append([f"top.c{j}.construct", arg, val]); true[arg] = val
    insts.append(["leafd", ctor, true["a"], true["b"], true["c"]])
    lines += [f"    s.c{j} = {ctor}", f"    s.o{j} = OutPort( Bits8 )", f"    s.c{j}.in_ //= s.in_", f"    s.o{j} //= s.c{j}.out"]
  src = "from pymtl3 import *\n" + LEAFD_SRC + "\n".join(lines) + "\n"
  ins = [draw(st.integers(0, 255)) for _ in range(2)]
  return {"kind": "B", "src": src, "n": n, "insts": [list(map(str, k)) for k in insts], "ins": ins, "as_list": False, "set_param": setp,
          "expect_k": [(int(i[2]) * 7 + int(i[3]) * 3 + int(i[4])) % 256 for i in insts]}


@st.composite
def naming_cases(draw):
  if draw(st.integers(0, 2)) == 0:
    return draw(default_arg_cases())
  nleaf = draw(st.integers(1, 2))
  src = ["from pymtl3 import *\n"]
  bodies = ["s.in_", "(s.in_ ^ 1)"]
  for i in range(nleaf):
    src.append(LEAF_SRC.format(idx=i, body=bodies[i % 2]))
  use_factory = draw(st.integers(0, 2)) == 0
  if use_factory:
    src.append(FACTORY_SRC.format(idx=0))
  insts = []
  n = draw(st.integers(2, 4))
  lines = ["class Top( Component ):", "  def construct( s ):", "    s.in_ = InPort( Bits8 )"]
  as_list = draw(st.integers(0, 2)) == 0          # the instances live in one Python list of sub-components
  ctors = []
  for j in range(n):
    if use_factory and not as_list and draw(st.integers(0, 1)) == 0:
      kk = draw(st.integers(1, 3))
      ctor = f"mk_adder0( {kk} )()"
      key = ("factory", kk)
    else:
      li = 0 if as_list else draw(st.integers(0, nleaf - 1))
      k = draw(st.sampled_from(PARAM_VALUES))
      if k == "1.0": k = "1"
      mode = draw(st.sampled_from(["None", "None", "'x'", "'y'"]))
      how = draw(st.integers(0, 2))
      if how == 0: ctor = f"Leaf{li}( 8, {k}, {mode} )"
      elif how == 1: ctor = f"Leaf{li}( nbits=8, k={k}, mode={mode} )"
      else: ctor = f"Leaf{li}( 8, k={k} )" if mode == "None" else f"Leaf{li}( 8, {k}, mode={mode} )"
      key = ("leaf", li, k, mode)
    insts.append(key); ctors.append(ctor)
  if as_list:
    lines.append("    s.cs = [ " + ", ".join(ctors) + " ]")
  for j in range(n):
    inst = f"s.cs[{j}]" if as_list else f"s.c{j}"
    if not as_list: lines.append(f"    s.c{j} = {ctors[j]}")
    lines.append(f"    s.o{j} = OutPort( Bits8 )")
    lines.append(f"    {inst}.in_ //= s.in_")
    lines.append(f"    s.o{j} //= {inst}.out")
  src.append("\n".join(lines) + "\n")
  ins = [draw(st.integers(0, 255)) for _ in range(3)]
  return {"src": "\n".join(src), "n": n, "insts": [list(map(str, k)) for k in insts], "ins": ins, "as_list": as_list}


def judge_b(case, backends=("verilog", "yosys")):
  from vf.sv import parse_design, SVSyntaxError, SVUnsupportedError, SVElabError
  from pymtl3.passes.backends.verilog import VerilogTranslationPass
  from pymtl3.passes.backends.yosys import YosysTranslationPass
  from pymtl3.passes.PassGroups import DefaultPassGroup
  from pymtl3.datatypes import Bits
  src = case["src"]
  modname = f"vfc13b_{os.getpid()}_{hashlib.sha1(src.encode()).hexdigest()[:10]}"
  path = os.path.join(os.getcwd(), modname + ".py")
  with open(path, "w") as f: f.write(src)
  spec = importlib.util.spec_from_file_location(modname, path)
  mod = importlib.util.module_from_spec(spec); sys.modules[modname] = mod
  try:
    spec.loader.exec_module(mod)
    # PyMTL reference behaviour
    def build():
      t_ = mod.Top()
      for path_, arg, val in case.get("set_param", []): t_.set_param(path_, **{arg: val})
      t_.elaborate()
      return t_
    top = build(); top.apply(DefaultPassGroup())
    expect = []
    for v in case["ins"]:
      top.in_ @= Bits(8, v); top.sim_eval_combinational()
      expect.append([int(getattr(top, f"o{j}")) for j in range(case["n"])])
      if "expect_k" in case and expect[-1] != [(v + k) % 256 for k in case["expect_k"]]:
        raise AssertionError(f"harness: default-argument family: PyMTL computes {expect[-1]} for in_={v}, constants {case['expect_k']}")
    for which, P in (("verilog", VerilogTranslationPass), ("yosys", YosysTranslationPass)):
      if which not in backends: continue
      t2 = build(); t2.set_metadata(P.enable, True)
      try:
        t2.apply(P())
      except Exception as ex:
        continue                                   # rejected: not judged
      vpath = t2.get_metadata(P.translated_filename)
      with open(vpath) as f: text = f.read()
      os.remove(vpath)
      topmod = t2.get_metadata(P.translated_top_module)
      try:
        d = parse_design(text)
      except SVUnsupportedError:
        continue
      except SVSyntaxError as ex:
        return (f"{which}:syntax_error", str(ex)[:300])
      sp = d.structural_problems()
      if sp: return (f"{which}:structural", "; ".join(sp[:3])[:400])
      try:
        sim = d.simulate(topmod)
        for v, exp in zip(case["ins"], expect):
          sim.set("in_", v); sim.eval()
          got = [sim.get(f"o{j}") for j in range(case["n"])]
          if got != exp:
            bad = [j for j in range(case["n"]) if got[j] != exp[j]]
            mods = {iname: mname for mname, iname in d.modules[topmod].instances}
            iname = (lambda j_: f"cs__{j_}") if case.get("as_list") else (lambda j_: f"c{j_}")
            shared = [j2 for j2 in range(case["n"]) if mods.get(iname(j2)) == mods.get(iname(bad[0]))]
            def pstr(inst):
              # what str() makes of the parameter values of a leaf instance (the module name is built from it)
              from pymtl3.datatypes import Bits, b1, b2, Bits1, Bits4, Bits8   # names used in PARAM_VALUES
              return (inst[1], str(eval(inst[2])), str(eval(inst[3])))
            if case["insts"][bad[0]][0] == "leafd":
              kind = "instances_with_different_arguments_share_a_module"
            elif case["insts"][bad[0]][0] == "factory":
              kind = "factory_classes_share_name"
            elif len({pstr(case["insts"][j2]) for j2 in shared if case["insts"][j2][0] == "leaf"}) == 1:
              kind = "param_values_share_str"          # e.g. 1 vs '1' vs b1(1): known finding
            elif which == "yosys" and case.get("as_list") and mods.get(iname(bad[0])) == mods.get(iname(0)):
              kind = "yosys_component_list_uses_first_elements_module"      # known finding
            else:
              kind = "instances_with_different_parameter_strings_share_a_module"
            return (f"alias:{kind}", f"{which}: instance c{bad[0]} {case['insts'][bad[0]]} computes {got[bad[0]]}, PyMTL {exp[bad[0]]} "
                                     f"for in_={v}; module {mods.get(iname(bad[0]))} is shared by instances "
                                     f"{[(j2, case['insts'][j2]) for j2 in shared]}")
      except SVElabError as ex:
        return (f"{which}:elab_error", str(ex)[:300])
    return None
  finally:
    sys.modules.pop(modname, None)
    try: os.remove(path)
    except OSError: pass


def judge(case):
  if case["kind"] == "A": return judge_a(case)
  return judge_b(case)


@st.composite
def sibling_struct_design(draw):
  """2-5 sibling sub-components of different classes, each with a struct type that only occurs on an internal wire
  (module-level typedef tables are filled while the children are visited: an order taken from a set shows here)"""
  from vf.gen import structs as S
  from vf.ref.rtl_eval import type_width
  R = lambda sig, inst="", sl=None, fld=(): {"inst": inst, "sig": sig, "fld": list(fld), "sl": sl}
  k = draw(st.integers(2, 5))
  classes = {}
  top = {"ports": [["in1", "in", ["b", 8]]], "wires": [], "children": [], "conns": [], "blocks": [], "uu": [], "consts": []}
  for i in range(k):
    wa, wb = draw(st.integers(1, 4)), draw(st.integers(1, 4))
    T = ["s", f"Priv{i}_{draw(st.integers(0, 9))}", [["a", ["b", wa]], ["b", ["b", wb]]]]
    c = {"ports": [["in1", "in", ["b", 8]], ["out1", "out", ["b", wa]]], "wires": [["w1", T]], "children": [],
         "conns": [[R("w1", fld=["a"]), R("in1", sl=[0, wa])], [R("w1", fld=["b"]), R("in1", sl=[wa, wa + wb])],
                   [R("out1"), R("w1", fld=["a"])]], "blocks": [], "uu": [], "consts": []}
    classes[f"K{i}"] = c
    top["children"].append([f"c{i}", f"K{i}"])
    top["ports"].append([f"o{i}", "out", ["b", wa]])
    top["conns"].append([R("in1", inst=f"c{i}"), R("in1")])
    top["conns"].append([R(f"o{i}"), R("out1", inst=f"c{i}")])
  classes["Top"] = top
  return {"classes": classes, "top": "Top"}


@st.composite
def cases_a(draw, n, light=False):
  designs = [draw(rtl_gen.designs(translatable=True, wide=False, max_steps=4, min_depth=draw(st.sampled_from([0, 1, 1, 2])),
                                  child_bias=2, ifcs=draw(st.booleans()), struct_bias=draw(st.sampled_from([0, 1, 2])))) for _ in range(n)]
  designs.append(draw(sibling_struct_design()))
  sources = []
  if draw(st.integers(0, 2)) == 0:
    # a black-box Verilog placeholder that needs several library files
    names = draw(st.lists(st.sampled_from(["vc_regs", "vc_muxes", "vc_arith", "vc_gates", "vc_misc", "vc_queues", "vc_mem", "vc_trace"]),
                          min_size=2, max_size=6, unique=True))
    nb = draw(st.sampled_from([1, 8, 32]))
    nb2 = draw(st.sampled_from([0, 0, 4, 16, nb]))
    sources.append({"src": PLACEHOLDER_SRC.format(libs=names, nbits=nb, nbits2=nb2), "placeholder": True,
                    "what": f"placeholder with v_libs {names}, instances with nbits {nb}" + (f" and {nb2}" if nb2 else "")})
  return {"kind": "A", "designs": designs, "sources": sources, "hashseed": draw(st.integers(2, 2 ** 31 - 1)), "light": light}


def size_of(design):
  return sum(len(c["conns"]) + len(c["blocks"]) + len(c["ports"]) for c in design["classes"].values())


def run_shard(ctx):
  import time
  per_batch = 4 if ctx.tier == "quick" else 8
  # thorough: part A may start batches during the first 40% of the budget; quick: the case counts decide (no clock)
  half = time.time() + (1.0 if ctx.tier == "quick" else 0.4) * max(0.0, ctx.deadline - time.time())

  @seed(ctx.hseed())
  # (Hypothesis' first example is always the minimal one: at least 3 examples per shard)
  @ctx.settings(ctx.n(48, 960))
  @given(cases_a(per_batch, light=ctx.tier == "quick"))
  def ta(case):
    if ctx.out_of_time() or time.time() > half:
      ctx.budget_exhausted = True
      return
    ctx.count(len(case["designs"]))
    ctx.label("determinism_designs", len(case["designs"]))
    if case.get("sources"): ctx.label("placeholder_with_library_files")
    v = judge_a(case)
    if v is None:
      for d in case["designs"]:
        if size_of(d) >= 3: ctx.nontriv(["A", d])
    ctx.judge(case, v)
    if ctx.evaluations % 5 == 0: ctx.sample({"kind": "A", "designs_in_batch": len(case["designs"]), "hashseed": case["hashseed"]})
  ctx.run(ta, "c13a")
  if ctx.violations: return

  @seed(ctx.hseed(1))
  @ctx.settings(ctx.n(1200, 40000))
  @given(naming_cases())
  def tb(case):
    if ctx.out_of_time(): return
    case = dict(case); case["kind"] = "B"
    ctx.count()
    ctx.label("naming_family")
    v = judge_b(case)
    distinct = len({tuple(k) for k in case["insts"]}) >= 2
    if any(k[0] == "factory" for k in case["insts"]): ctx.label("factory_classes")
    if case.get("as_list"): ctx.label("instances_in_a_list")
    if any(k[0] == "leafd" for k in case["insts"]): ctx.label("default_argument_family")
    if case.get("set_param"): ctx.label("set_param_override")
    if v is None and distinct: ctx.nontriv(["B", case["insts"]])
    ctx.judge(case, v)
    if ctx.evaluations % 97 == 0: ctx.sample({"kind": "B", "instances": case["insts"]})
  ctx.run(tb, "c13b")


def replay(case):
  return judge(case)
