"""C07 -- flip-flop updates are atomic at the clock edge, for every order of the update_ff blocks."""
import itertools
import random

from hypothesis import given, seed, strategies as st

from vf.gen import rtl_gen, rtl_sim
from vf.props import c01

ID = "C07"
LEVEL = "exploration"
RULE = ("case = (register-heavy generated RTL design: 2-5 registers per component incl. struct-typed ones, "
        "update_ff blocks that read each other's registers, conditional / repeated / missing assignments, "
        "register outputs forwarded through nets into child components, input sequence); every design is run "
        "under all k! orders of top._sched.schedule_ff for k<=4 (sampled above; at most 6 orders in the quick "
        "tier) on forced comb schedules, plus the Default/Simple/HeuTopo/Mamba2020/Unroll pass groups; after "
        "every tick all signals must equal state_{t+1}=F(state_t,in_t) computed by the reference on pre-edge "
        "values only. non-trivial = two update_ff blocks with a read-after-write hazard between them (A reads a "
        "register that B writes) and >=2 different ff orders executed; distinct by design+inputs")
ASSUMPTIONS = [
  "reference next-state function: all update_ff blocks read the pre-edge snapshot, last executed assignment wins, "
  "unassigned registers hold (vf/ref/rtl_eval.py:tick)",
  "ff orders are imposed by overwriting top._sched.schedule_ff before PrepareSimPass (property anchor observe_at)",
]
QUICK_S = 240
THOROUGH_S = 1200


def ff_hazard(design):
  """True if some ff block reads a register written by another ff block"""
  from vf.ref.rtl_eval import Model
  m = Model(design)
  # alias map through whole-signal connections (dst <- src)
  alias = {}
  for ip, kind, p in m.comb_units():
    if kind == "conn" and isinstance(p[1], dict):
      alias[m.key_of(ip, p[0])] = m.key_of(ip, p[1])

  def root(k):
    seen = set()
    while k in alias and k not in seen:
      seen.add(k); k = alias[k]
    return k
  blocks = []
  for ip, cn in m.insts.items():
    for b in m.classes[cn]["blocks"]:
      if b["kind"] == "ff":
        acc = set()

        def reads(x):
          if isinstance(x, dict) and "sig" in x: acc.add(root(m.key_of(ip, x)))
          elif isinstance(x, list):
            for y in x: reads(y)
        reads(b["stmts"])
        wr = m._written_keys(ip, b["stmts"])
        blocks.append((acc, wr))
  for i, (ra, wa) in enumerate(blocks):
    for j, (rb, wb) in enumerate(blocks):
      if i != j and ra & wb: return True
  return False


def run_ff_orders(design, seq, ref, perms_limit, rseed):
  """forced comb order + each ff permutation. returns (verdict, set of ff orders executed)"""
  orders = set()
  # find k first
  probe = rtl_sim.Sim(design)
  try:
    probe.elaborate()
    k = len(probe.top.get_all_update_ff())
  finally:
    probe.close()
  if k <= 4 and __import__("math").factorial(k) <= perms_limit:
    perms = list(itertools.permutations(range(k)))
  else:
    rng = random.Random(rseed)
    perms = set()
    for _ in range(perms_limit * 3):
      p = list(range(k)); rng.shuffle(p); perms.add(tuple(p))
      if len(perms) >= perms_limit: break
    perms = sorted(perms)
  for pi, perm in enumerate(perms):
    s = rtl_sim.Sim(design)
    stage = "elaborate"
    try:
      s.elaborate()
      rng = random.Random(rseed + pi)

      def fo(top):
        return c01.linear_extension(top, rng)

      def ff(top):
        f = sorted(top._sched.schedule_ff, key=lambda b: (b.__name__, repr(top.get_update_block_host_component(b))))
        o = [f[i] for i in perm]
        orders.add(tuple(repr(top.get_update_block_host_component(b)) + "." + b.__name__ for b in o))
        return o
      stage = "apply"
      s.apply("forced", rseed=rseed, force_order=fo, force_ff=ff)
      for t, (cyc, (a, b)) in enumerate(zip(seq, ref)):
        stage = "eval"
        s.set_inputs(cyc); s.eval_comb()
        got = s.snapshot()
        if got != a:
          dd = rtl_sim.diff(a, got)
          return (f"ffperm:eval:value_mismatch", f"cycle {t} perm {perm}: {[(x, got[x], a[x]) for x in dd[:4]]}"), orders
        stage = "tick"
        s.tick()
        got = s.snapshot()
        if got != b:
          dd = rtl_sim.diff(b, got)
          return (f"ffperm:tick:value_mismatch", f"cycle {t} perm {perm}: {[(x, got[x], b[x]) for x in dd[:4]]}"), orders
    except Exception as ex:
      import traceback
      tb = traceback.extract_tb(ex.__traceback__)
      inner = [f for f in tb if "/pymtl3/" in f.filename]
      where = inner[-1].name if inner else tb[-1].name
      return (f"ffperm:{stage}:exception:{type(ex).__name__}@{where}", f"{ex}"[:500]), orders
    finally:
      s.close()
  return None, orders


def judge(case, stats=None):
  design, seq = case["design"], case["seq"]
  ref = rtl_sim.run_reference(design, seq)
  v, orders = run_ff_orders(design, seq, ref, case["perms"], case["seeds"][0])
  if v is not None: return v
  for i, p in enumerate(rtl_sim.PASSES):
    v, _ = c01.run_config(design, seq, ref, {"pass": p, "seed": case["seeds"][i % 3]})
    if v is not None: return v
  if stats is not None: stats["orders"] = len(orders)
  return None


@st.composite
def cases(draw, perms):
  design = draw(rtl_gen.designs(ff_heavy=True, max_steps=3, min_comb=0, max_depth=2, child_bias=1, ifcs=draw(st.booleans())))
  seq = draw(rtl_gen.input_seqs(design))
  seeds = draw(st.lists(st.integers(0, 2 ** 20), min_size=3, max_size=3))
  return {"design": design, "seq": seq, "seeds": seeds, "perms": perms}


def run_shard(ctx):
  perms = 6 if ctx.tier == "quick" else 24

  @seed(ctx.hseed())
  @ctx.settings(ctx.n(1400, 24000))
  @given(cases(perms))
  def t(case):
    if ctx.out_of_time(): return
    ctx.count()
    for f_ in rtl_gen.features(case["design"]): ctx.label(f_)
    stats = {}
    v = judge(case, stats)
    hz = ff_hazard(case["design"])
    if hz: ctx.label("ff_raw_hazard")
    if stats.get("orders", 0) >= 2: ctx.label("two_or_more_ff_orders")
    nstruct = sum(1 for c in case["design"]["classes"].values() for b in c["blocks"] if b["kind"] == "ff"
                  for s_ in b["stmts"] if "assign_struct" in repr(s_))
    if nstruct: ctx.label("struct_register")
    if v is None and hz and stats.get("orders", 0) >= 2:
      ctx.nontriv([case["design"], case["seq"]])
    ctx.judge(case, v)
    if ctx.evaluations % 7 == 0:
      from vf.gen.rtl_render import Renderer
      ctx.sample({"source": Renderer(case["design"]).source("x")[:1500], "cycles": len(case["seq"])})

  ctx.run(t, "c07")


def replay(case):
  for _ in range(3):
    v = judge(case)
    if v is not None: return v
  return None
