"""C05 -- slices, concat, extension, reduce and clog2 address exactly the named bits."""
from hypothesis import given, seed, strategies as st

from vf.runner import Violation
from vf.strategies import widths, uvalue, any_int

ID = "C05"
LEVEL = "exploration"
RULE = ("cases = (op, n, x, bounds/index, value, target) for op in getbit/getslice/setbit/setslice/"
        "concat/zext/sext/trunc/reduce/clog2; exhaustive over all (lo,hi) in [-3,n+3]u{None}, all x, "
        "for small n, plus Hypothesis cases over n in 1..1023; oracle = shift/mask arithmetic on "
        "Python ints, IndexError-or-other exception for invalid bounds/steps/too-wide values, frame "
        "condition on all other bits. non-trivial = invalid bound/step/value case, an explicit 0 or n "
        "bound, slice touching bit 0 or n-1, clog2 argument within 1 of a power of two, "
        "sign bit set for sext; distinct by full case tuple")
ASSUMPTIONS = [
  "narrower Bits assigned into a wider slice, zext/sext to a narrower target and trunc to a wider "
  "target are left open by the statement: not judged (counted as 'open')",
  "Python's omitted slice bounds (None) mean 0 / n",
]
QUICK_S = 240
THOROUGH_S = 900

_env = {}


def env():
  if not _env:
    import pymtl3
    from pymtl3.datatypes import Bits, mk_bits, concat, zext, sext, trunc, reduce_and, reduce_or, \
        reduce_xor, clog2
    _env.update(Bits=Bits, mk_bits=mk_bits, concat=concat, zext=zext, sext=sext, trunc=trunc,
                reduce_and=reduce_and, reduce_or=reduce_or, reduce_xor=reduce_xor, clog2=clog2)
  return _env


def _chk(r, n, val, e):
  if not isinstance(r, e["Bits"]): return f"result is {type(r).__name__}"
  if r.nbits != n: return f"width {r.nbits}, expected {n}"
  if int(r.uint()) != val: return f"value {int(r.uint())}, expected {val}"
  return None


def _bound(b, e):
  """decode a stored bound: None | int | ["B", width, value] (a Bits-typed bound)"""
  if isinstance(b, (list, tuple)):
    return e["Bits"](b[1], b[2]), b[2]
  return b, b


def judge(case):
  e = env()
  Bits = e["Bits"]
  op = case["op"]

  def sig(w): return f"{op}:{w}"

  if op in ("getslice", "setslice"):
    n, x = case["n"], case["x"]
    lo_o, lo = _bound(case["lo"], e)
    hi_o, hi = _bound(case["hi"], e)
    step = case.get("step")
    elo = 0 if lo is None else lo
    ehi = n if hi is None else hi
    valid = step is None and 0 <= elo < ehi <= n
    b = Bits(n, x)
    sl = slice(lo_o, hi_o, step)
    if op == "getslice":
      try: r = b[sl]
      except Exception as ex:
        if valid: return sig("unexpected_exception"), f"{type(ex).__name__}: {ex}"
        return None
      if not valid: return sig("no_error"), f"Bits{n}({x:#x})[{lo}:{hi}:{step}] returned {r!r}"
      w = ehi - elo
      why = _chk(r, w, (x >> elo) & ((1 << w) - 1), e)
      if why: return sig("wrong_result"), why
      if int(b) != x: return sig("operand_mutated"), repr(b)
      return None
    # setslice
    vk, v = case["vkind"], case["v"]
    w = ehi - elo
    if vk == "bits":
      val = Bits(case["vn"], v)
      if not valid: fits = None
      elif case["vn"] == w: fits = True
      elif case["vn"] > w: fits = False
      else: fits = "open"
    else:
      val = v
      fits = None if not valid else (-(1 << (w - 1)) <= v <= (1 << w) - 1)
    try: b[sl] = val
    except Exception as ex:
      if valid and fits is True: return sig("unexpected_exception"), f"{type(ex).__name__}: {ex}"
      if int(b) != x: return sig("mutated_on_error"), f"raised {type(ex).__name__} but value is now {int(b):#x}"
      return None
    if not valid: return sig("no_error"), f"Bits{n}({x:#x})[{lo}:{hi}:{step}] = {v} accepted, now {int(b):#x}"
    if fits is False: return sig("no_error"), f"too-wide value {v} (kind {vk}) accepted into {w}-bit slice"
    if fits == "open": return "open"
    mask = ((1 << w) - 1) << elo
    exp = (x & ~mask) | ((v & ((1 << w) - 1)) << elo)
    why = _chk(b, n, exp, e)
    if why: return sig("wrong_result"), why
    return None

  if op in ("getbit", "setbit"):
    n, x = case["n"], case["x"]
    i_o, i = _bound(case["i"], e)
    valid = 0 <= i < n
    b = Bits(n, x)
    if op == "getbit":
      try: r = b[i_o]
      except Exception as ex:
        if valid: return sig("unexpected_exception"), f"{type(ex).__name__}: {ex}"
        return None
      if not valid: return sig("no_error"), f"Bits{n}[{i}] returned {r!r}"
      why = _chk(r, 1, (x >> i) & 1, e)
      if why: return sig("wrong_result"), why
      return None
    vk, v = case["vkind"], case["v"]
    if vk == "bits":
      val = Bits(case["vn"], v); fits = case["vn"] == 1
    else:
      val = v; fits = -1 <= v <= 1
    try: b[i_o] = val
    except Exception as ex:
      if valid and fits: return sig("unexpected_exception"), f"{type(ex).__name__}: {ex}"
      if int(b) != x: return sig("mutated_on_error"), f"value now {int(b):#x}"
      return None
    if not valid: return sig("no_error"), f"Bits{n}[{i}] = {v} accepted"
    if not fits: return sig("no_error"), f"too-wide value {v} ({vk}) accepted into one bit"
    exp = (x & ~(1 << i)) | ((v & 1) << i)
    why = _chk(b, n, exp, e)
    if why: return sig("wrong_result"), why
    return None

  if op == "concat":
    parts = case["parts"]                    # list of [width, value]
    tot = sum(p[0] for p in parts)
    args = [Bits(p[0], p[1]) for p in parts]
    try: r = e["concat"](*args)
    except Exception as ex:
      if tot < 1024: return sig("unexpected_exception"), f"{type(ex).__name__}: {ex}"
      return None
    if tot >= 1024: return sig("no_error"), f"concat of total width {tot} accepted"
    val = 0
    for wdt, v in parts: val = (val << wdt) | v
    why = _chk(r, tot, val, e)
    if why: return sig("wrong_result"), why
    return None

  if op in ("zext", "sext", "trunc"):
    n, x, t, as_type = case["n"], case["x"], case["t"], case["as_type"]
    b = Bits(n, x)
    target = e["mk_bits"](t) if as_type else t
    if op == "trunc":
      if t > n: return "open"
      exp = x & ((1 << t) - 1)
    else:
      if t < n: return "open"
      exp = x if op == "zext" or not (x >> (n - 1)) else x | (((1 << t) - 1) ^ ((1 << n) - 1))
    try: r = e[op](b, target)
    except Exception as ex:
      return sig("unexpected_exception"), f"{type(ex).__name__}: {ex}"
    why = _chk(r, t, exp, e)
    if why: return sig("wrong_result"), why
    if int(b) != x: return sig("operand_mutated"), repr(b)
    return None

  if op == "reduce":
    n, x = case["n"], case["x"]
    b = Bits(n, x)
    exp = {"reduce_and": int(x == (1 << n) - 1), "reduce_or": int(x != 0),
           "reduce_xor": bin(x).count("1") & 1}
    for f, ev in exp.items():
      try: r = e[f](b)
      except Exception as ex: return f"{f}:unexpected_exception", repr(ex)
      why = _chk(r, 1, ev, e)
      if why: return f"{f}:wrong_result", why
    return None

  if op == "clog2":
    N = case["N"]
    try: r = e["clog2"](N)
    except Exception as ex: return sig("unexpected_exception"), repr(ex)
    exp = (N - 1).bit_length()
    if r != exp or not isinstance(r, int): return sig("wrong_result"), f"clog2({N}) = {r!r}, expected {exp}"
    return None

  raise ValueError(op)


def is_nontrivial(c):
  op = c["op"]
  if op in ("getslice", "setslice"):
    n = c["n"]
    lo = c["lo"][2] if isinstance(c["lo"], list) else c["lo"]
    hi = c["hi"][2] if isinstance(c["hi"], list) else c["hi"]
    if c.get("step") is not None: return True
    elo = 0 if lo is None else lo; ehi = n if hi is None else hi
    if not (0 <= elo < ehi <= n): return True
    if lo == 0 or hi == 0 or hi == n or elo == 0 or ehi == n: return True
    if op == "setslice":
      w = ehi - elo
      if c["vkind"] == "bits": return c["vn"] != w
      return not (0 <= c["v"] < (1 << w))
    return False
  if op in ("getbit", "setbit"):
    i = c["i"][2] if isinstance(c["i"], list) else c["i"]
    return not (0 < i < c["n"] - 1) or (op == "setbit" and (c["vkind"] == "bits" and c["vn"] != 1 or c["v"] not in (0, 1)))
  if op == "concat": return len(c["parts"]) >= 2
  if op == "sext": return bool(c["x"] >> (c["n"] - 1)) and c["t"] > c["n"]
  if op in ("zext", "trunc"): return c["t"] != c["n"]
  if op == "reduce": return c["x"] in (0, (1 << c["n"]) - 1) or bin(c["x"]).count("1") in (1, c["n"] - 1)
  if op == "clog2":
    N = c["N"]
    return any(((N + d) & (N + d - 1)) == 0 for d in (-1, 0, 1) if N + d > 0)
  return False


def one(ctx, case):
  v = judge(case)
  if v == "open":
    ctx.label("open_not_judged"); return
  ctx.count()
  ctx.label("op_" + case["op"])
  if is_nontrivial(case):
    ctx.nontriv(repr(sorted(case.items(), key=lambda kv: kv[0])))
  ctx.judge(case, v)


def exhaustive(ctx, maxn):
  total = 0; idx = 0
  try:
    for n in range(1, maxn + 1):
      bounds = [None] + list(range(-3, n + 4))
      for lo in bounds:
        for hi in bounds:
          idx += 1
          if idx % ctx.nshards != ctx.shard: continue
          for x in range(1 << n):
            one(ctx, {"op": "getslice", "n": n, "x": x, "lo": lo, "hi": hi, "step": None}); total += 1
          elo = 0 if lo is None else lo; ehi = n if hi is None else hi
          w = max(1, ehi - elo)
          for x in (0, (1 << n) - 1, 0x2a5 & ((1 << n) - 1)):
            for v in sorted({0, 1, (1 << w) - 1, (1 << w), -(1 << (w - 1)), -(1 << (w - 1)) - 1, -1}):
              one(ctx, {"op": "setslice", "n": n, "x": x, "lo": lo, "hi": hi, "step": None,
                        "vkind": "int", "v": v}); total += 1
            for vn in (w, w + 1):
              if 1 <= vn < 1024:
                for v in (0, (1 << vn) - 1):
                  one(ctx, {"op": "setslice", "n": n, "x": x, "lo": lo, "hi": hi, "step": None,
                            "vkind": "bits", "vn": vn, "v": v}); total += 1
      idx += 1
      if idx % ctx.nshards == ctx.shard:
        for i in range(-2, n + 2):
          for x in range(1 << n):
            one(ctx, {"op": "getbit", "n": n, "x": x, "i": i}); total += 1
            for v in (-2, -1, 0, 1, 2):
              one(ctx, {"op": "setbit", "n": n, "x": x, "i": i, "vkind": "int", "v": v}); total += 1
        for x in range(1 << n):
          one(ctx, {"op": "reduce", "n": n, "x": x}); total += 1
          for t in range(n, n + 4):
            for as_type in (False, True):
              one(ctx, {"op": "zext", "n": n, "x": x, "t": t, "as_type": as_type}); total += 1
              one(ctx, {"op": "sext", "n": n, "x": x, "t": t, "as_type": as_type}); total += 1
          for t in range(1, n + 1):
            for as_type in (False, True):
              one(ctx, {"op": "trunc", "n": n, "x": x, "t": t, "as_type": as_type}); total += 1
    # clog2 around every power of two up to 2^80 (+ a stretch of small N)
    idx += 1
    if idx % ctx.nshards == ctx.shard:
      for N in range(1, 1025):
        one(ctx, {"op": "clog2", "N": N}); total += 1
      for k in range(10, 81):
        for d in (-1, 0, 1):
          one(ctx, {"op": "clog2", "N": (1 << k) + d}); total += 1
  except Violation:
    return
  ctx.extra["exhaustive_cases"] = total
  ctx.extra["exhaustive_maxn"] = maxn


@st.composite
def a_bound(draw, n):
  k = draw(st.integers(0, 11))
  if k == 0: return None
  if k == 1: return 0
  if k == 2: return n
  if k == 3: return draw(st.integers(-3, -1))
  if k == 4: return n + draw(st.integers(1, 3))
  v = draw(st.integers(0, n))
  if k == 5:                                  # Bits-typed bound
    w = max(v.bit_length(), 1) + draw(st.integers(0, 2))
    return ["B", w, v]
  return v


@st.composite
def cases(draw):
  op = draw(st.sampled_from(["getslice", "getslice", "setslice", "setslice", "getbit", "setbit", "concat",
                             "zext", "sext", "trunc", "reduce", "clog2"]))
  if op == "clog2":
    k = draw(st.integers(0, 80))
    N = draw(st.one_of(st.just((1 << k) + draw(st.integers(-1, 1))), st.integers(1, 1 << 80)))
    return {"op": op, "N": max(1, N)}
  if op == "concat":
    m = draw(st.integers(1, 6))
    parts = []
    for _ in range(m):
      w = draw(st.one_of(st.integers(1, 24), widths(1, 400)))
      parts.append([w, draw(uvalue(w))])
    return {"op": op, "parts": parts}
  n = draw(widths())
  x = draw(uvalue(n))
  if op == "reduce": return {"op": op, "n": n, "x": x}
  if op in ("zext", "sext"):
    t = draw(st.one_of(st.integers(n, min(1023, n + 70)), st.integers(n, 1023)))
    return {"op": op, "n": n, "x": x, "t": t, "as_type": draw(st.booleans())}
  if op == "trunc":
    return {"op": op, "n": n, "x": x, "t": draw(st.integers(1, n)), "as_type": draw(st.booleans())}
  if op in ("getbit", "setbit"):
    i = draw(st.one_of(st.integers(-2, n + 1), st.sampled_from([0, n - 1, n, -1])))
    if 0 <= i and draw(st.integers(0, 5)) == 0:
      i = ["B", max(1, i.bit_length()) + draw(st.integers(0, 2)), i]
    c = {"op": op, "n": n, "x": x, "i": i}
    if op == "setbit":
      if draw(st.booleans()): c.update(vkind="int", v=draw(st.integers(-3, 3)))
      else:
        vn = draw(st.sampled_from([1, 1, 1, 2, 3]))
        c.update(vkind="bits", vn=vn, v=draw(uvalue(vn)))
    return c
  lo, hi = draw(a_bound(n)), draw(a_bound(n))
  if draw(st.booleans()):                      # steer towards valid bounds
    a, b = sorted([draw(st.integers(0, n)), draw(st.integers(0, n))])
    if a < b:
      lo = a if draw(st.integers(0, 4)) else (None if a == 0 else a)
      hi = b if draw(st.integers(0, 4)) else (None if b == n else b)
  step = draw(st.sampled_from([None] * 12 + [1, 2, -1, 0]))
  c = {"op": op, "n": n, "x": x, "lo": lo, "hi": hi, "step": step}
  if op == "setslice":
    l = lo[2] if isinstance(lo, list) else lo; h = hi[2] if isinstance(hi, list) else hi
    w = (n if h is None else h) - (0 if l is None else l)
    w = w if 1 <= w <= 1023 else draw(st.integers(1, n))
    if draw(st.booleans()):
      c.update(vkind="int", v=draw(any_int(w)))
    else:
      vn = draw(st.sampled_from([w, w, w, max(1, w - 1), min(1023, w + 1)]))
      c.update(vkind="bits", vn=vn, v=draw(uvalue(vn)))
  return c


def run_shard(ctx):
  exhaustive(ctx, 5 if ctx.tier == "quick" else 8)
  if ctx.violations: return

  @seed(ctx.hseed())
  @ctx.settings(ctx.n(24000, 1500000))
  @given(cases())
  def t(case):
    if ctx.out_of_time(): return
    one(ctx, case)
    if ctx.evaluations % 997 == 0: ctx.sample(case)

  ctx.run(t, "c05")


def replay(case):
  v = judge(case)
  return None if v == "open" else v


def extra_coverage(merged):
  ex = merged["extra"]
  return {"exhaustive_small_width_cases": sum(ex.get("exhaustive_cases", [])),
          "exhaustive_small_width_maxn": max(ex.get("exhaustive_maxn", [0])),
          "exhaustive": False}
