"""C19 -- round-robin arbiters grant exactly one requester, fairly.

Real `RoundRobinArbiter` / `RoundRobinArbiterEn` instances are simulated cycle by cycle in
lock-step with vf.ref.arbiter_model (explicit pointer model + a fairness monitor that looks at
the observed grants only).  Two searches:

  * exhaustive: every (pointer, reqs, en) triple for nreqs <= 4 (quick) / <= 6 (thorough); the
    pointer is steered by a single-requester cycle in front of every triple
  * generated: Hypothesis-drawn histories of (reqs, en, reset) per cycle, nreqs 2..8, with
    persistent requesters so that the fairness bound is actually exercised
"""
import random

from hypothesis import given, seed, strategies as st

from vf.runner import Violation, sha12
from vf.ref.arbiter_model import RoundRobinModel, FairnessMonitor

ID = "C19"
LEVEL = "exploration"
RULE = ("case = (arbiter class, nreqs, history of (reqs, en, reset) per cycle) run from a fresh, reset "
        "instance in lock-step with a pointer model; generated histories (Hypothesis lists, nreqs "
        "2..8, persistent requesters, occasional reset / en low) plus the complete table of "
        "(pointer, reqs, en) triples for small nreqs, each reached by steering the pointer with a "
        "single-requester cycle. non-trivial = the history contains a cycle in which the pointer is "
        "not 0, no input at or above the pointer requests and one below it does (the grant search "
        "wraps past input nreqs-1); for a table entry: the triple itself is such a cycle. distinct = "
        "hash of the whole case (generated) / the (class, nreqs, pointer, reqs, en) tuple (table)")
ASSUMPTIONS = [
  "DefaultPassGroup simulation (sim_eval_combinational / sim_tick) is the execution vehicle; "
  "its scheduling correctness is the subject of C01/C02, not of this check",
  "the priority pointer is observed as priority_reg.out (one-hot, bit i = input i has priority), "
  "as named in the property anchors",
  "grants during a cycle in which reset is high are judged like any other cycle (the statement "
  "quantifies over every request history and the arbiter's grant logic does not look at reset)",
  "fairness bound: an input requesting continuously may be passed over in at most nreqs-1 cycles "
  "in which the pointer advances (grant != 0, and en high for the En variant); a reset restarts "
  "the bound",
]
QUICK_S = 240
THOROUGH_S = 600

VARIANTS = {"RoundRobinArbiter": False, "RoundRobinArbiterEn": True}
NMIN, NMAX = 2, 8



class _BudgetGone(BaseException):
  """raised inside the Hypothesis test once the wall budget is used up; not an Exception, so
  Hypothesis neither treats it as a failure nor keeps generating the remaining examples"""


_env = {}


def env():
  if not _env:
    import pymtl3
    from pymtl3 import DefaultPassGroup
    from pymtl3.stdlib.basic_rtl import arbiters
    _env.update(DefaultPassGroup=DefaultPassGroup, arbiters=arbiters)
  return _env


class Lockstep:
  """one DUT instance + reference model; cycle() returns None or (signature, detail)"""

  def __init__(self, cls_name, n, rseed=0):
    e = env()
    self.cls_name, self.n = cls_name, n
    self.has_en = VARIANTS[cls_name]
    random.seed(rseed)
    dut = getattr(e["arbiters"], cls_name)(n)
    dut.elaborate()
    dut.apply(e["DefaultPassGroup"]())
    dut.sim_reset()
    self.dut = dut
    self.model = RoundRobinModel(n, self.has_en)
    self.fair = FairnessMonitor(n, self.has_en)
    self.t = 0
    self.visited = set()             # (ptr, reqs, en) as seen by the model
    self.wrap_cycles = 0
    self.adv_cycles = 0

  def sig(self, what):
    return f"{self.cls_name}:{what}"

  def pointer(self):
    return int(self.dut.priority_reg.out)

  def check_start(self):
    p = self.pointer()
    if p != 1:
      return self.sig("reset_pointer"), f"n={self.n}: priority_reg.out={p:#b} after sim_reset, expected 0b1"
    return None

  def cycle(self, reqs, en, rst):
    dut, m, n = self.dut, self.model, self.n
    en = 1 if not self.has_en else int(bool(en))
    rst = int(bool(rst))
    dut.reqs @= reqs
    if self.has_en:
      dut.en @= en
    dut.reset @= rst
    dut.sim_eval_combinational()
    g = int(dut.grants)
    where = f"n={n} cycle={self.t} ptr={m.ptr} reqs={reqs:0{n}b} en={en} rst={rst} grants={g:0{n}b}"
    self.visited.add((m.ptr, reqs, en))
    if m.wraps(reqs):
      self.wrap_cycles += 1
    # -- the combinational clauses ------------------------------------------------
    if g & (g - 1):
      return self.sig("grants_not_onehot0"), where
    if g & ~reqs:
      return self.sig("grant_not_requested"), where
    if (g != 0) != (reqs != 0):
      return self.sig("grant_zero_mismatch"), where
    exp = m.grants(reqs)
    if g != exp:
      return self.sig("wrong_grant_position"), where + f" expected={exp:0{n}b}"
    p = self.pointer()
    if p != m.pointer_onehot():
      return self.sig("pointer_changed_without_clock"), where + f" priority_reg.out={p:0{n}b}"
    # -- fairness on the observed history -------------------------------------------
    starv = self.fair.observe(reqs, en, rst, g)
    if starv is not None:
      return self.sig("starvation"), where + (f" input {starv[0]} requested continuously and was "
                                              f"passed over in {starv[1]} advancing cycles")
    # -- clock edge -------------------------------------------------------------------
    adv = m.advances(reqs, en) and not rst
    if adv:
      self.adv_cycles += 1
    dut.sim_tick()
    m.tick(reqs, en, rst)
    self.t += 1
    p = self.pointer()
    if p != m.pointer_onehot():
      what = "reset_pointer" if rst else ("pointer_rotation" if adv else "pointer_hold")
      return self.sig(what), where + f" priority_reg.out after edge={p:0{n}b} expected={m.pointer_onehot():0{n}b}"
    return None


def run_history(case, upto=None):
  """-> (verdict, lockstep, index of failing cycle or None)"""
  ls = Lockstep(case["cls"], case["n"], case.get("rseed", 0))
  v = ls.check_start()
  if v:
    return v, ls, -1
  for k, (reqs, en, rst) in enumerate(case["hist"]):
    v = ls.cycle(reqs, en, rst)
    if v:
      return v, ls, k
  return None, ls, None


def replay(case):
  return run_history(case)[0]


# ---------------------------------------------------------------------------------------
# exhaustive table
# ---------------------------------------------------------------------------------------

def table_tasks(maxn):
  return [(cls, n, p) for cls in sorted(VARIANTS) for n in range(NMIN, maxn + 1) for p in range(n)]


def table_size(maxn):
  return sum(n * (1 << n) * (2 if VARIANTS[cls] else 1) for cls in VARIANTS for n in range(NMIN, maxn + 1))


def exhaustive(ctx, maxn):
  """all (pointer, reqs, en) triples for nreqs <= maxn, split over shards by (class, n, pointer)."""
  done = 0
  wraps = 0
  for idx, (cls, n, p) in enumerate(table_tasks(maxn)):
    if idx % ctx.nshards != ctx.shard:
      continue
    ens = (1, 0) if VARIANTS[cls] else (1,)
    steer = [1 << ((p - 1) % n), 1, 0]
    hist, probes = [], []
    for reqs in range(1 << n):
      for en in ens:
        hist.append(list(steer))
        probes.append(len(hist))
        hist.append([reqs, en, 0])
    case = {"cls": cls, "n": n, "rseed": 0, "hist": hist}
    verdict, ls, k = run_history(case)
    if verdict is not None:
      # report the shortest failing prefix, preferring the two-cycle (steer, triple) form
      cands = []
      if k is not None and k >= 1:
        cands.append({"cls": cls, "n": n, "rseed": 0, "hist": hist[k - 1:k + 1]})
        cands.append({"cls": cls, "n": n, "rseed": 0, "hist": hist[k:k + 1]})
      cands.append({"cls": cls, "n": n, "rseed": 0, "hist": hist[:(k if k is not None else 0) + 1]})
      for c in sorted(cands, key=lambda c: len(c["hist"])):
        v = replay(c)
        if v is not None:
          case, verdict = c, v
          break
      try:
        ctx.judge(case, verdict)
      except Violation:
        return False
    else:
      # harness invariant: every triple of this pointer was seen
      want = {(p, reqs, en) for reqs in range(1 << n) for en in ens}
      missing = want - ls.visited
      if missing:
        raise RuntimeError(f"table steering failed for {cls} n={n} p={p}: {sorted(missing)[:4]}")
      m = RoundRobinModel(n, VARIANTS[cls]); m.ptr = p
      for (pp, reqs, en) in sorted(want):
        ctx.count()
        done += 1
        if m.wraps(reqs):
          wraps += 1
          ctx.nontriv(f"T{cls[-2:]}{n}.{p}.{reqs}.{en}")
      ctx.label("table_" + cls, len(want))
  ctx.extra["table_entries"] = done
  ctx.extra["table_wrap_entries"] = wraps
  ctx.extra["table_maxn"] = maxn
  return True


# ---------------------------------------------------------------------------------------
# generated histories
# ---------------------------------------------------------------------------------------

@st.composite
def cases(draw):
  cls = draw(st.sampled_from(sorted(VARIANTS)))
  n = draw(st.one_of(st.integers(NMIN, NMAX), st.sampled_from([2, 3, 5, 8])))
  full = (1 << n) - 1
  persistent = draw(st.integers(0, full))
  has_en = VARIANTS[cls]

  @st.composite
  def step(draw):
    kind = draw(st.integers(0, 11))
    if kind == 0: reqs = 0
    elif kind == 1: reqs = full
    elif kind in (2, 3): reqs = 1 << draw(st.integers(0, n - 1))
    elif kind in (4, 5, 6): reqs = persistent | draw(st.integers(0, full))
    elif kind == 7: reqs = persistent
    elif kind == 8: reqs = persistent | (1 << draw(st.integers(0, n - 1)))
    else: reqs = draw(st.integers(0, full))
    # written so that the shrinker's preferred draw (0) means en=1 / no reset
    en = int(draw(st.integers(0, 3)) != 3) if has_en else 1
    rst = int(draw(st.integers(0, 23)) == 23)
    return [reqs, en, rst]

  # lists() on its own favours short lists; fairness needs >= nreqs advancing cycles
  lo = draw(st.sampled_from([1, 1, 4, 12, 24, 40]))
  hist = draw(st.lists(step(), min_size=lo, max_size=64))
  rseed = draw(st.integers(0, 7))
  return {"cls": cls, "n": n, "rseed": rseed, "hist": hist}


def one(ctx, case):
  verdict, ls, k = run_history(case)
  ctx.count()
  ctx.label("hist_" + case["cls"])
  ctx.label("cycles", ls.t)
  ctx.label(f"hist_nreqs_{case['n']}")
  if ls.wrap_cycles:
    ctx.label("hist_with_wrap")
    ctx.nontriv(sha12(case))
  if any(s[2] for s in case["hist"]):
    ctx.label("hist_with_reset")
  if VARIANTS[case["cls"]] and any(not s[1] and s[0] for s in case["hist"]):
    ctx.label("hist_with_grant_while_en_low")
  if ls.adv_cycles >= case["n"]:
    ctx.label("hist_with_full_rotation_possible")
  ctx.judge(case, verdict)


def run_shard(ctx):
  if not exhaustive(ctx, 4 if ctx.tier == "quick" else 6):
    return

  @seed(ctx.hseed())
  @ctx.settings(ctx.n(8000, 200000))
  @given(cases())
  def t(case):
    if ctx.out_of_time():
      raise _BudgetGone()       # BaseException: leaves Hypothesis at once, no shrinking, no tail
    one(ctx, case)
    if ctx.evaluations % 97 == 0:
      ctx.sample(case)

  try:
    ctx.run(t, "c19")
  except _BudgetGone:
    pass                        # recorded by ctx.out_of_time() as budget_exhausted


def extra_coverage(merged):
  ex = merged["extra"]
  maxn = max(ex.get("table_maxn", [0]))
  got = sum(ex.get("table_entries", []))
  want = table_size(maxn) if maxn else 0
  return {
    "table_pointer_reqs_en_entries": got,
    "table_pointer_reqs_en_expected": want,
    "table_complete": bool(maxn) and got == want,
    "table_wrap_entries": sum(ex.get("table_wrap_entries", [])),
    "table_max_nreqs": maxn,
    "exhaustive": False,
    "note": "the (pointer, reqs, en) table of both arbiter classes is enumerated completely for "
            "nreqs <= table_max_nreqs (table_complete); histories and larger nreqs are sampled",
  }
