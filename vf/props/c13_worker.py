"""C13 worker: translate a batch in THIS process (started with a chosen PYTHONHASHSEED).
usage: c13_worker.py <batch.json> <workdir> <repo>
batch.json: {"designs": [IR...], "sources": [{"src": python source, "top": "Top", "params": ...}]}
prints one JSON object: {"ir": [[verilog_sha|status, yosys_sha|status], ...], "src": [...]}"""
import hashlib, importlib.util, json, os, sys

batch_path, workdir, repo = sys.argv[1], sys.argv[2], sys.argv[3]
verif = os.path.dirname(os.path.dirname(os.path.dirname(os.path.abspath(__file__))))
sys.path.insert(0, verif); sys.path.insert(0, repo)
os.chdir(workdir)
sys.path.insert(0, workdir)
sys.setrecursionlimit(10000)


def sha(path):
  with open(path, "rb") as f: return hashlib.sha256(f.read()).hexdigest()


def translate(top, P, placeholder=False):
  top.elaborate()
  if placeholder:
    from pymtl3.passes.backends.verilog import VerilogPlaceholderPass
    top.apply(VerilogPlaceholderPass())
  top.set_metadata(P.enable, True)
  try:
    top.apply(P())
  except Exception as ex:
    return "rejected:" + type(ex).__name__
  path = top.get_metadata(P.translated_filename)
  h = sha(path)
  if placeholder:
    # every module name of the emitted text (pickled sources and wrappers included) stands for one body
    import re
    text = open(path).read()
    bodies = {}
    for m in re.finditer(r"^[ \t]*module[ \t]+([A-Za-z_][A-Za-z_0-9$]*)(.*?)^[ \t]*endmodule", text, re.S | re.M):
      bodies.setdefault(m.group(1), set()).add(" ".join(m.group(2).split()))
    dup = sorted(n for n, b in bodies.items() if len(b) > 1)
    if dup:
      os.remove(path)
      return "dup:" + ",".join(dup)
  os.remove(path)
  return h


def main():
  from pymtl3.passes.backends.verilog import VerilogTranslationPass
  from pymtl3.passes.backends.yosys import YosysTranslationPass
  from vf.gen.rtl_render import load_design
  batch = json.load(open(batch_path))
  out = {"ir": [], "src": []}
  for i, d in enumerate(batch.get("designs", [])):
    res = []
    for P in (VerilogTranslationPass, YosysTranslationPass):
      Top, src, cleanup = load_design(d, None, workdir, tag=f"d{i}", modname=f"vfc13_ir_{i}")
      try:
        res.append(translate(Top(), P))
      finally:
        cleanup()
    out["ir"].append(res)
  for i, s in enumerate(batch.get("sources", [])):
    res = []
    for P in (VerilogTranslationPass, YosysTranslationPass):
      if s.get("placeholder") and P is YosysTranslationPass:
        res.append("skipped"); continue
      modname = f"vfc13_src_{i}"
      path = os.path.join(workdir, modname + ".py")
      with open(path, "w") as f: f.write(s["src"])
      spec = importlib.util.spec_from_file_location(modname, path)
      mod = importlib.util.module_from_spec(spec); sys.modules[modname] = mod
      try:
        spec.loader.exec_module(mod)
        res.append(translate(mod.Top(), P, bool(s.get("placeholder"))))
      finally:
        sys.modules.pop(modname, None); os.remove(path)
    out["src"].append(res)
  print("C13RESULT " + json.dumps(out))


main()
