"""C03 -- translated SystemVerilog behaves exactly like the PyMTL simulation (translation validation)."""
import os

from hypothesis import given, seed, strategies as st

from vf.gen import rtl_gen, rtl_sim
from vf.ref.rtl_eval import Model, type_width

ID = "C03"
LEVEL = "translation_validation"
BACKEND = "verilog"
RULE = ("program = generated translatable RTL design (operators, constant/variable bit selects, slices, struct ports and "
        "wires with nested/list fields, sub-components, connections through slices/fields/constants, temporaries, "
        "for-loops, if/elif/else, if-expressions, int literals, registers with reset, lists of components, interfaces and 1-D/2-D lists of interfaces, child input ports registered by the parent) + input sequence; a second family instantiates one class with three defaulted construct() arguments several times (positional / keyword / defaulted / set_param overrides): every instance must behave like its own PyMTL instance; the design is "
        "translated by VerilogTranslationPass; the emitted text must parse under the strict IEEE-1800 subset grammar of "
        "engine E2, have no undeclared/duplicate identifiers and exactly one driver per variable bit, and E2's two-state "
        "execution must give the same packed value on every output port after every evaluation and clock edge as the "
        "PyMTL simulation (which is also compared with the independent dataflow reference). Designs the pass rejects "
        "are counted, not judged. non-trivial = accepted design in which some output changes over the run and which "
        "contains a width-sensitive construct (zext/sext/trunc, shift, comparison, +,-,*, re-sized literal); distinct by "
        "design+inputs")
ASSUMPTIONS = [
  "E2 (vf/sv) is the executable reading of IEEE 1800-2017 two-state semantics for the emitted subset; it was calibrated on "
  "the repository's own translation corpus (all cases with upstream test vectors agree); a value disagreement is reported "
  "only if it persists under both index-signedness readings (strict LRM and tool consensus)",
  "text outside E2's subset grammar that may still be legal SystemVerilog (SVUnsupportedError) is counted as inconclusive",
]
QUICK_S = 240
THOROUGH_S = 1500


def backend(name):
  if name == "verilog":
    from pymtl3.passes.backends.verilog import VerilogTranslationPass as P
  else:
    from pymtl3.passes.backends.yosys import YosysTranslationPass as P
  return P


def translate(design, which):
  """-> ("rejected", exc) | ("ok", text, topmodule)"""
  P = backend(which)
  s = rtl_sim.Sim(design)
  path = None
  try:
    top = s.elaborate()
    top.set_metadata(P.enable, True)
    try:
      top.apply(P())
    except Exception as ex:
      return ("rejected", ex)
    path = top.get_metadata(P.translated_filename)
    with open(path) as f: text = f.read()
    return ("ok", text, top.get_metadata(P.translated_top_module))
  finally:
    s.close()
    if path:
      try: os.remove(path)
      except OSError: pass


def pymtl_trace(design, seq):
  """PyMTL simulation of the outputs; also checked against the reference. -> (trace, verdict)"""
  top_c = design["classes"][design["top"]]
  outs = [n for n, d, t in top_c["ports"] if d == "out"]
  ref = rtl_sim.run_reference(design, seq)
  s = rtl_sim.Sim(design)
  try:
    s.elaborate(); s.apply("default")
    trace = []
    for t, (cyc, (a, b)) in enumerate(zip(seq, ref)):
      s.set_inputs(cyc); s.eval_comb()
      g1 = s.snapshot()
      if g1 != a:
        return None, ("pymtl:differs_from_reference", f"cycle {t} eval: {rtl_sim.diff(a, g1)[:4]}")
      s.tick()
      g2 = s.snapshot()
      if g2 != b:
        return None, ("pymtl:differs_from_reference", f"cycle {t} tick: {rtl_sim.diff(b, g2)[:4]}")
      trace.append(({o: g1[o] for o in outs}, {o: g2[o] for o in outs}))
    return trace, None
  finally:
    s.close()


def flat_leaves(design, port):
  """[(flattened port name, lo, hi)] of a top-level port under the Yosys backend's naming convention (path segments
  joined by '__', a list index i rendered as '__i'); a Bits port maps to itself"""
  from vf.gen import structs as S
  top_c = design["classes"][design["top"]]
  t = [t for n, d, t in top_c["ports"] if n == port]
  if not t: return [(port, 0, 1)]                      # reset/clk
  t = t[0]
  flat = port.replace("[", "__").replace("]", "").replace(".", "__")  # list element i: name__i; interface member: ifc__member
  if t[0] == "b": return [(flat, 0, t[1])]
  pos, tot = S.positions(t)
  return [(flat + "".join("__" + str(x) for x in path), lo, hi) for path, (lo, hi) in pos.items()]


def run_sv(text, topmod, design, seq, trace, strict, flat=False):
  from vf.sv import parse_design
  d = parse_design(text)
  sim = d.simulate(topmod, strict_lrm_index_sign=strict)

  def split(p):
    # interface member ports are named <ifc>__<member>; every list index of the path (list of interfaces, list of
    # ports) moves to the end, in order: ifc[1].msg[0] is element [1][0] of the unpacked array ifc__msg
    import re
    idx = tuple(int(x) for x in re.findall(r"\[(\d+)\]", p))
    return re.sub(r"\[\d+\]", "", p).replace(".", "__"), idx

  def setp(p, v):
    if not flat:
      n, idx = split(p); sim.set(n, v, index=idx); return
    for name, lo, hi in flat_leaves(design, p):
      sim.set(name, (v >> lo) & ((1 << (hi - lo)) - 1))

  def getp(p):
    if not flat:
      n, idx = split(p); return sim.get(n, index=idx)
    v = 0
    for name, lo, hi in flat_leaves(design, p):
      v |= (sim.get(name) & ((1 << (hi - lo)) - 1)) << lo
    return v
  for t, cyc in enumerate(seq):
    for p, v in cyc["in"].items(): setp(p, v)
    sim.set("reset", cyc.get("reset", 0))
    sim.eval()
    for o, v in trace[t][0].items():
      g = getp(o)
      if g != v: return f"cycle {t} after eval: {o} = {g}, PyMTL {v}"
    sim.tick()
    for o, v in trace[t][1].items():
      g = getp(o)
      if g != v: return f"cycle {t} after tick: {o} = {g}, PyMTL {v}"
  return None


def check_flat_ports(d, topmod, design):
  """the module header's port set must be exactly the flattened leaves of the PyMTL ports (plus clk/reset)"""
  top_c = design["classes"][design["top"]]
  expect = {"clk": ("input", 1), "reset": ("input", 1)}
  for n, dr, t in top_c["ports"]:
    for name, lo, hi in flat_leaves(design, n):
      expect[name] = ("input" if dr == "in" else "output", hi - lo)
  got = {}
  for p in d.modules[topmod].ports:
    got[p[0]] = (p[1], p[2])
  if set(got) != set(expect):
    return f"missing {sorted(set(expect) - set(got))[:4]} unexpected {sorted(set(got) - set(expect))[:4]}"
  for k in expect:
    if tuple(got[k]) != expect[k]: return f"port {k}: {got[k]} vs {expect[k]}"
  return None


def judge_backend(case, which, stats=None):
  from vf.sv import parse_design, SVSyntaxError, SVUnsupportedError, SVElabError
  design, seq = case["design"], case["seq"]
  r = translate(design, which)
  if r[0] == "rejected":
    if stats is not None: stats["rejected"] = type(r[1]).__name__
    return None
  _, text, topmod = r
  if stats is not None: stats["accepted"] = True
  try:
    d = parse_design(text)
  except SVUnsupportedError as ex:
    if stats is not None: stats["unsupported"] = str(ex)[:100]
    return None
  except SVSyntaxError as ex:
    ln = getattr(ex, "line", None)
    line = text.splitlines()[ln - 1].strip()[:200] if ln and 0 < ln <= len(text.splitlines()) else ""
    return (f"{which}:syntax_error", f"{ex} :: {line}")
  sp = d.structural_problems()
  if sp:
    if _kind(sp[0]) == "for_loop_does_not_terminate" and has_wrapping_descending_loop(design):
      return (f"{which}:descending_loop_wraps_unsigned", "; ".join(sp[:2])[:300])
    return (f"{which}:structural:{_kind(sp[0])}", "; ".join(sp[:3])[:400])
  dp = d.driver_problems(topmod)
  if dp: return (f"{which}:drivers:{_kind(dp[0])}", "; ".join(dp[:3])[:400])
  flat = which == "yosys"
  if flat:
    pm = check_flat_ports(d, topmod, design)
    if pm: return (f"{which}:flat_port_map", pm)
  trace, v = pymtl_trace(design, seq)
  if v is not None: return v
  try:
    m1 = run_sv(text, topmod, design, seq, trace, False, flat)
    if m1 is not None:
      m2 = run_sv(text, topmod, design, seq, trace, True, flat)
      if m2 is not None:
        return (f"{which}:value_mismatch", m1)
      if stats is not None: stats["reading_dependent"] = True
  except SVElabError as ex:
    return (f"{which}:elab_error", str(ex)[:300])
  if stats is not None:
    stats["changes"] = any(trace[i][k] != trace[j][k2] for i in range(len(trace)) for j in range(len(trace))
                           for k in (0, 1) for k2 in (0, 1))
  return None


def _kind(msg):
  """problem class without module / signal names"""
  if "does not terminate" in msg: return "for_loop_does_not_terminate"
  for k in ("multiple drivers", "no driver", "member access", "instance name", "not declared", "undeclared",
            "declared twice", "duplicate", "reserved", "defined twice", "not defined", "input port"):
    if k in msg: return k.replace(" ", "_")
  import re
  m = re.sub(r"[^a-zA-Z ]", "", msg.split(":", 1)[-1]).split()
  return "_".join(m[:4]).lower()[:40]


def has_wrapping_descending_loop(design):
  """a constant descending loop whose value after the last iteration would be negative"""
  found = []

  def walk(x):
    if isinstance(x, list):
      if x and x[0] == "for" and len(x) == 6 and isinstance(x[4], int) and x[4] < 0:
        vals = list(range(x[2], x[3], x[4]))
        if vals and vals[-1] + x[4] < 0: found.append(x[:5])
      for y in x: walk(y)
    elif isinstance(x, dict):
      for y in x.values(): walk(y)
  walk(design)
  return bool(found)


def width_sensitive(design):
  s = repr(design)
  return any(k in s for k in ("'zext'", "'sext'", "'trunc'", "'shl'", "'shr'", "'cmp'", "'+'", "'-'", "'*'", "'lit'"))


def judge(case, stats=None):
  return judge_backend(case, BACKEND, stats)


@st.composite
def cases(draw):
  design = draw(rtl_gen.designs(translatable=True, wide=draw(st.integers(0, 4)) == 0, max_steps=5, ifcs=draw(st.booleans())))
  seq = draw(rtl_gen.input_seqs(design, ncycles=draw(st.integers(3, 7))))
  return {"design": design, "seq": seq}


def run_shard_for(ctx, mod, quick_n, thorough_n):
  @seed(ctx.hseed())
  @ctx.settings(ctx.n(quick_n, thorough_n))
  @given(cases())
  def t(case):
    if ctx.out_of_time(): return
    ctx.count()
    for f_ in rtl_gen.features(case["design"]): ctx.label(f_)
    stats = {}
    v = mod.judge(case, stats)
    if stats.get("accepted"): ctx.label("accepted")
    if stats.get("rejected"): ctx.label("rejected_" + stats["rejected"])
    if stats.get("unsupported"): ctx.label("e2_unsupported")
    if stats.get("reading_dependent"): ctx.label("agrees_under_one_index_sign_reading_only")
    if len(case["design"]["classes"]) > 1: ctx.label("hierarchical")
    if '"s",' in repr(case["design"]).replace("'", '"'): ctx.label("struct_types")
    if v is None and stats.get("accepted") and stats.get("changes") and width_sensitive(case["design"]):
      ctx.nontriv([case["design"], case["seq"]])
    ctx.judge(case, v)
    if ctx.evaluations % 29 == 0:
      from vf.gen.rtl_render import Renderer
      ctx.sample({"pymtl_source": Renderer(case["design"]).source("x")[:1200], "cycles": len(case["seq"])})
  ctx.run(t, mod.ID)


def judge_param(case):
  """parametrised components: instances of one class that differ only in construct() arguments (positional, keyword,
  defaulted, overridden with set_param) must each behave like their own PyMTL instance in the translated text"""
  from vf.props import c13
  v = c13.judge_b(case, backends=(BACKEND,))
  return None if v is None else ("param:" + v[0], v[1])


def run_shard(ctx):
  import vf.props.c03 as me
  run_shard_for(ctx, me, 1200, 40000)
  if ctx.violations: return
  from vf.props import c13

  @seed(ctx.hseed(2))
  @ctx.settings(ctx.n(480, 8000))
  @given(c13.default_arg_cases())
  def tp(case):
    if ctx.out_of_time(): return
    ctx.count()
    ctx.label("parametrised_component_family")
    if case.get("set_param"): ctx.label("set_param_override")
    case = dict(case); case["family"] = "param"
    v = judge_param(case)
    if v is None and len({tuple(k[2:]) for k in case["insts"]}) >= 2: ctx.nontriv(["param", case["insts"], case.get("set_param")])
    ctx.judge(case, v)
  ctx.run(tp, "c03p")


def replay(case):
  if case.get("family") == "param": return judge_param(case)
  return judge(case)


def extra_coverage(merged):
  from vf.sv import TRUSTED_BASE
  acc = merged["classes"].get("accepted", 0)
  return {"programs": acc, "disagreements_checked": acc, "trusted_base": list(TRUSTED_BASE)}
