"""C17 -- library queues are FIFOs with their advertised same-cycle behaviour.

Real queue instances are simulated cycle by cycle in lock-step with vf.ref.fifo_model.FifoSpec.
One history element is an *offer* (enq?, msg, deq?, reset?); the harness turns offers into
protocol-legal port activity for the interface family of the queue:

  callee  (queues/queues.py: enq.en/rdy/msg in, deq.en/rdy/ret, count)
          en is raised only where rdy is seen high; the side whose rdy is purely a function of
          the state is decided first (pipe: deq before enq; bypass: enq before deq)
  sender  (queues/enrdy_queues.py: enq.en/rdy/msg, deq.en is an OUTPUT, deq.rdy is the sink)
          the sink's rdy is set first, then enq.en is raised only if enq.rdy is seen high
  valrdy  (stream/queues.py: recv.val/rdy/msg, send.val/rdy/msg, count)
          val and sink rdy are chosen blind; val and msg are held until accepted
  cl      (queues/cl_queues.py) a harness component with a producer and a consumer update_once
          block; each calls rdy() before the method; pymtl3 orders them from the M() constraints
"""
import importlib
import os
import random

from hypothesis import given, seed, strategies as st

from vf.runner import Violation, sha12
from vf.ref.fifo_model import FifoSpec, NORMAL, PIPE, BYPASS

ID = "C17"
LEVEL = "exploration"
RULE = ("case = (queue class, capacity, entry type, history of offers (enq?, msg, deq?, reset?)) run "
        "from a fresh, reset instance in lock-step with FIFO_spec(kind, capacity); offers are turned "
        "into protocol-legal port activity per interface family. Generated histories are made of "
        "fill / drain / stream / random / idle segments; in addition the abstract transition table "
        "(occupancy, read-pointer index, enq offer, deq offer) of every class is enumerated for "
        "capacities <= 4 by steering (h enqueues, h dequeues, occ enqueues, then the probe and a "
        "drain). non-trivial = the history reaches full AND drains back to empty AND has a cycle "
        "with both sides offering at full or at empty, OR a read/write pointer wraps at a "
        "non-power-of-two capacity; distinct = hash of the whole case")
ASSUMPTIONS = [
  "DefaultPassGroup simulation is the execution vehicle (its scheduling is the subject of C01/C02)",
  "queues/valrdy_queues.py is NOT covered: it cannot be imported on the pinned tree (it needs "
  "InValRdyIfc/OutValRdyIfc from pymtl3.stdlib.ifcs, which no longer exist); the import is "
  "attempted on every run and the outcome is written to coverage.valrdy_queues",
  "reset offers are generated only for queues whose whole state is resettable (queues.py, "
  "stream/queues.py); a reset empties the queue, nothing is asserted in the reset cycle itself "
  "(the statement says nothing about ports under reset) and messages stored at that moment "
  "are dropped from both sides of the books",
  "occupancy is observed at the `count` port where one exists, len(queue) for CL queues, and not "
  "at all for enrdy_queues.py (no count port)",
  "for the sender-side en/rdy queues (enrdy_queues.py) dequeue-valid is observable only as "
  "deq.en = valid & sink-ready; for CL queues rdy is the value returned by rdy() inside the "
  "producer / consumer block in the order pymtl3 schedules them",
  "the dequeued message is compared with the spec head only in cycles in which the dequeue fires",
  "a simulation exception raised inside sim_eval_combinational/sim_tick on a legal history is "
  "reported as a violation (the implementation produced no outputs), not as a harness error",
]
QUICK_S = 240
THOROUGH_S = 720

CAPS = [1, 2, 3, 4, 5]
Q = "pymtl3.stdlib.queues.queues"
E = "pymtl3.stdlib.queues.enrdy_queues"
S = "pymtl3.stdlib.stream.queues"
C = "pymtl3.stdlib.queues.cl_queues"
CONFIGS = {
  "rtl.NormalQueueRTL":    dict(mod=Q, cls="NormalQueueRTL", fam="callee", kind=NORMAL, caps=CAPS, reset=True),
  "rtl.PipeQueueRTL":      dict(mod=Q, cls="PipeQueueRTL",   fam="callee", kind=PIPE,   caps=CAPS, reset=True),
  "rtl.BypassQueueRTL":    dict(mod=Q, cls="BypassQueueRTL", fam="callee", kind=BYPASS, caps=CAPS, reset=True),
  "enrdy.NormalQueue1RTL": dict(mod=E, cls="NormalQueue1RTL", fam="sender", kind=NORMAL, caps=[1], reset=False),
  "enrdy.PipeQueue1RTL":   dict(mod=E, cls="PipeQueue1RTL",   fam="sender", kind=PIPE,   caps=[1], reset=False),
  "enrdy.BypassQueue1RTL": dict(mod=E, cls="BypassQueue1RTL", fam="sender", kind=BYPASS, caps=[1], reset=False),
  "enrdy.BypassQueue2RTL": dict(mod=E, cls="BypassQueue2RTL", fam="sender", kind=BYPASS, caps=[2], reset=False),
  "stream.NormalQueueRTL": dict(mod=S, cls="NormalQueueRTL", fam="valrdy", kind=NORMAL, caps=CAPS, reset=True),
  "stream.PipeQueueRTL":   dict(mod=S, cls="PipeQueueRTL",   fam="valrdy", kind=PIPE,   caps=CAPS, reset=True),
  "stream.BypassQueueRTL": dict(mod=S, cls="BypassQueueRTL", fam="valrdy", kind=BYPASS, caps=CAPS, reset=True),
  "cl.NormalQueueCL":      dict(mod=C, cls="NormalQueueCL", fam="cl", kind=NORMAL, caps=CAPS, reset=False),
  "cl.PipeQueueCL":        dict(mod=C, cls="PipeQueueCL",   fam="cl", kind=PIPE,   caps=CAPS, reset=False),
  "cl.BypassQueueCL":      dict(mod=C, cls="BypassQueueCL", fam="cl", kind=BYPASS, caps=CAPS, reset=False),
}
ETYPES = {"b8": 8, "b16": 16, "b32": 32, "st": 16}
TABLE_MAXCAP = 4

# the one confirmed deviation (see known_findings.json): exactly this signature may be tolerated
BUBBLE_SIG = "enrdy.BypassQueue2RTL:enq_rdy_low_when_not_full"

# experiments only (default: nothing skipped); skipped classes are counted in excluded_by_finding
SKIP = {k for k in os.environ.get("VERIF_C17_SKIP", "").split(",") if k}



class _BudgetGone(BaseException):
  """raised inside the Hypothesis test once the wall budget is used up; not an Exception, so
  Hypothesis neither treats it as a failure nor keeps generating the remaining examples"""


_env = {}


def env():
  if not _env:
    import pymtl3
    from pymtl3 import (Component, DefaultPassGroup, update_once, bitstruct, mk_bits, Bits4, Bits8)

    @bitstruct
    class C17Msg:
      a: Bits8
      b: Bits4
      c: Bits4

    class C17CLHarness(Component):
      """producer / consumer around a CL queue; offers are plain attributes set before sim_tick"""

      def construct(s, QType, num_entries):
        s.dut = QType(num_entries)
        s.want_enq = False
        s.enq_msg = None
        s.want_deq = False
        s.log = {}

        @update_once
        def up_producer():
          r = s.dut.enq.rdy()
          s.log["enq_rdy"] = bool(r)
          s.log["did_enq"] = False
          if s.want_enq and r:
            s.dut.enq(s.enq_msg)
            s.log["did_enq"] = True

        @update_once
        def up_consumer():
          r = s.dut.deq.rdy()
          s.log["deq_rdy"] = bool(r)
          s.log["did_deq"] = False
          if s.want_deq and r:
            s.log["got"] = s.dut.deq()
            s.log["did_deq"] = True

    _env.update(DefaultPassGroup=DefaultPassGroup, mk_bits=mk_bits, Msg=C17Msg, CLH=C17CLHarness)
  return _env


def valrdy_status():
  try:
    importlib.import_module("pymtl3.stdlib.queues.valrdy_queues")
  except ImportError as ex:
    return f"not importable on this tree: ImportError: {ex}"[:300]
  return "importable on this tree but NOT covered by this check"


def mk_msg(etype, v):
  e = env()
  if etype == "st":
    return e["Msg"].from_bits(e["mk_bits"](16)(v))
  return e["mk_bits"](ETYPES[etype])(v)


def msg_int(etype, x):
  if etype == "st":
    return int(x.to_bits())
  return int(x)


class DutError(Exception):
  pass


class Lockstep:
  """one queue instance + FifoSpec; cycle() / finish() return None or (signature, detail)"""

  def __init__(self, case, tolerate=None):
    e = env()
    self.key, self.cap, self.etype = case["q"], case["cap"], case["etype"]
    cfg = CONFIGS[self.key]
    if self.cap not in cfg["caps"] or self.etype not in ETYPES:
      raise ValueError(f"bad case configuration {self.key} cap={self.cap} etype={self.etype}")
    self.cfg, self.fam, self.kind = cfg, cfg["fam"], cfg["kind"]
    self.tolerate = tolerate or (lambda sig: False)
    random.seed(case.get("rseed", 0))
    cls = getattr(importlib.import_module(cfg["mod"]), cfg["cls"])
    T = e["Msg"] if self.etype == "st" else e["mk_bits"](ETYPES[self.etype])
    if self.fam in ("callee", "valrdy"):
      top = cls(T, self.cap)
    elif self.fam == "sender":
      top = cls(T)
    else:
      top = e["CLH"](cls, self.cap)
    top.elaborate()
    top.apply(e["DefaultPassGroup"]())
    top.sim_reset()
    self.top = top
    self.spec = FifoSpec(self.kind, self.cap)
    self.t = 0
    self.pending = None              # val/rdy: message whose val must be held
    self.obs_delivered = []
    self.tolerated = 0
    # bookkeeping for the non-trivial rule / the table
    self.seen_full = False
    self.seen_drained = False
    self.simul_at_boundary = False
    self.wrapped = False
    self.visited = set()
    self.fires = [0, 0]

  # -- helpers -------------------------------------------------------------------------
  def sig(self, clause):
    return f"{self.key}:{clause}"

  def _eval(self):
    try:
      self.top.sim_eval_combinational()
    except Exception as ex:                       # raised by the simulated design
      raise DutError(f"{type(ex).__name__}: {ex}")

  def _tick(self):
    try:
      self.top.sim_tick()
    except Exception as ex:
      raise DutError(f"{type(ex).__name__}: {ex}")

  def where(self, enq, msg, deq, extra=""):
    s = self.spec
    return (f"cap={self.cap} etype={self.etype} cycle={self.t} occ={s.occ} stored={s.items} "
            f"offer(enq={int(enq)} msg={msg} deq={int(deq)}) {extra}")

  def enq_clause(self, dut_rdy, r):
    if bool(dut_rdy) == r.enq_rdy:
      return None
    if r.enq_rdy:
      c = "enq_rdy_low_when_not_full" if not self.spec.full() else "enq_rdy_low_when_full_and_deq"
      if c == "enq_rdy_low_when_not_full" and self.key == "enrdy.BypassQueue2RTL":
        # the known bubble has exactly one shape: one message, sitting in stage 1, stage 2 empty
        try:
          shape = (self.spec.occ == 1 and int(self.top.q1.full.out) == 1 and int(self.top.q2.full.out) == 0)
        except AttributeError:
          shape = False
        if not shape:
          c += "_other_shape"
      return c
    return "enq_rdy_high_when_full"

  def deq_clause(self, dut_rdy, r, name="deq_rdy"):
    if bool(dut_rdy) == r.deq_rdy:
      return None
    if r.deq_rdy:
      return f"{name}_low_when_not_empty" if not self.spec.empty() else f"{name}_low_when_empty_and_enq"
    return f"{name}_high_when_empty"

  def count_check(self, when, enq, msg, deq):
    if self.fam in ("callee", "valrdy"):
      c = int(self.top.count)
    elif self.fam == "cl":
      c = len(self.top.dut.queue)
    else:
      return None
    if c != self.spec.occ:
      return self.sig("count"), self.where(enq, msg, deq, f"count={c} {when}")
    if c > self.cap:
      return self.sig("count_exceeds_capacity"), self.where(enq, msg, deq, f"count={c}")
    return None

  def note(self, enq, deq):
    s = self.spec
    if self.cap <= TABLE_MAXCAP:
      self.visited.add((s.occ, s.head_idx, int(enq), int(deq)))
    if s.full():
      self.seen_full = True
    if s.empty() and s.n_enq > 0:
      self.seen_drained = True
    if enq and deq and (s.full() or s.empty()):
      self.simul_at_boundary = True

  def after_commit(self, r):
    s = self.spec
    if self.cap & (self.cap - 1):               # non-power-of-two capacity
      if (r.enq_fire and s.n_enq % self.cap == 0) or (r.deq_fire and s.n_deq % self.cap == 0):
        self.wrapped = True
    self.fires[0] += int(r.enq_fire)
    self.fires[1] += int(r.deq_fire)

  def nontrivial(self):
    return (self.seen_full and self.seen_drained and self.simul_at_boundary) or self.wrapped

  # -- one cycle -----------------------------------------------------------------------
  def cycle(self, enq, msg, deq, rst):
    try:
      if rst and self.cfg["reset"]:
        return self._reset_cycle()
      v = getattr(self, "_cycle_" + self.fam)(bool(enq), int(msg), bool(deq))
    except DutError as ex:
      return self.sig("sim_exception"), self.where(enq, msg, deq, str(ex)[:400])
    self.t += 1
    return v

  def _reset_cycle(self):
    top = self.top
    if self.fam == "callee":
      top.enq.en @= 0
      top.deq.en @= 0
    else:
      top.recv.val @= 0
      top.send.rdy @= 0
    top.reset @= 1
    self._eval()
    self._tick()
    top.reset @= 0
    self._eval()
    self.spec.reset()
    self.pending = None
    self.t += 1
    return self.count_check("after reset", 0, 0, 0)

  def _side(self, side, dut_rdy, r, enq, msg, deq):
    """compare one ready with the spec -> (verdict, tolerated?)"""
    c = self.enq_clause(dut_rdy, r) if side == "enq" else self.deq_clause(dut_rdy, r)
    if c is None:
      return None, False
    s = self.sig(c)
    if s == BUBBLE_SIG and self.tolerate(s):
      self.tolerated += 1
      return None, True
    return (s, self.where(enq, msg, deq, f"{side}.rdy={int(bool(dut_rdy))} spec: {r!r}")), False

  def _msg_check(self, got, r, enq, msg, deq):
    self.obs_delivered.append(got)
    if got != r.deq_msg:
      return self.sig("deq_msg"), self.where(enq, msg, deq, f"delivered={got} expected={r.deq_msg}")
    return None

  # callee en/rdy on both sides ---------------------------------------------------------
  def _cycle_callee(self, enq, msg, deq):
    top, spec = self.top, self.spec
    self.note(enq, deq)
    r = spec.resolve(enq, msg, deq)
    top.enq.msg @= mk_msg(self.etype, msg)
    top.enq.en @= 0
    top.deq.en @= 0
    self._eval()
    v = self.count_check("before edge", enq, msg, deq)
    if v: return v
    order = ("enq", "deq") if self.kind == BYPASS else ("deq", "enq")
    for side in order:
      ifc = top.enq if side == "enq" else top.deq
      rdy = int(ifc.rdy)
      v, _ = self._side(side, rdy, r, enq, msg, deq)
      if v: return v
      ifc.en @= int((enq if side == "enq" else deq) and rdy)
      self._eval()
    # settled: both readies once more, now with the final en values
    for side in order:
      ifc = top.enq if side == "enq" else top.deq
      v, _ = self._side(side, int(ifc.rdy), r, enq, msg, deq)
      if v: return (v[0] + "_after_en", v[1])
    if r.deq_fire:
      v = self._msg_check(msg_int(self.etype, top.deq.ret), r, enq, msg, deq)
      if v: return v
    self._tick()
    spec.commit(r, msg)
    self.after_commit(r)
    return self.count_check("after edge", enq, msg, deq)

  # sender: deq side is driven by the queue ----------------------------------------------
  def _cycle_sender(self, enq, msg, deq):
    top, spec = self.top, self.spec
    self.note(enq, deq)
    r = spec.resolve(enq, msg, deq)
    top.deq.rdy @= int(deq)
    top.enq.msg @= mk_msg(self.etype, msg)
    top.enq.en @= 0
    self._eval()
    rdy = int(top.enq.rdy)
    v, tol = self._side("enq", rdy, r, enq, msg, deq)
    if v: return v
    if tol:                                   # known bubble: the offer cannot be made this cycle
      enq = False
      r = spec.resolve(False, msg, deq)
    top.enq.en @= int(enq and rdy)
    self._eval()
    if not tol:
      v, _ = self._side("enq", int(top.enq.rdy), r, enq, msg, deq)
      if v: return (v[0] + "_after_en", v[1])
    en = int(top.deq.en)
    if en and not deq:
      return self.sig("deq_en_while_sink_not_ready"), self.where(enq, msg, deq)
    if bool(en) != r.deq_fire:
      # sink is ready here (or both are low): en is the queue's "valid"
      c = self.deq_clause(en, r, "deq_en") if deq else "deq_en"
      return self.sig(c), self.where(enq, msg, deq, f"deq.en={en} spec: {r!r}")
    if r.deq_fire:
      v = self._msg_check(msg_int(self.etype, top.deq.msg), r, enq, msg, deq)
      if v: return v
    self._tick()
    spec.commit(r, msg)
    self.after_commit(r)
    return None

  # val/rdy -------------------------------------------------------------------------------
  def _cycle_valrdy(self, enq, msg, deq):
    top, spec = self.top, self.spec
    if self.pending is not None:              # val and msg are held until accepted
      enq, msg = True, self.pending
    self.note(enq, deq)
    r = spec.resolve(enq, msg, deq)
    top.recv.val @= int(enq)
    top.recv.msg @= mk_msg(self.etype, msg)
    top.send.rdy @= int(deq)
    self._eval()
    v = self.count_check("before edge", enq, msg, deq)
    if v: return v
    c = self.enq_clause(int(top.recv.rdy), r)
    if c:
      return self.sig(c), self.where(enq, msg, deq, f"recv.rdy={int(top.recv.rdy)} spec: {r!r}")
    c = self.deq_clause(int(top.send.val), r, "deq_val")
    if c:
      return self.sig(c), self.where(enq, msg, deq, f"send.val={int(top.send.val)} spec: {r!r}")
    if r.deq_fire:
      v = self._msg_check(msg_int(self.etype, top.send.msg), r, enq, msg, deq)
      if v: return v
    self._tick()
    spec.commit(r, msg)
    self.after_commit(r)
    self.pending = msg if (enq and not r.enq_fire) else None
    return self.count_check("after edge", enq, msg, deq)

  # cycle level ------------------------------------------------------------------------------
  def _cycle_cl(self, enq, msg, deq):
    top, spec = self.top, self.spec
    self.note(enq, deq)
    r = spec.resolve(enq, msg, deq)
    top.want_enq, top.want_deq = enq, deq
    top.enq_msg = mk_msg(self.etype, msg)
    top.log.clear()
    self._tick()
    log = top.log
    if "enq_rdy" not in log or "deq_rdy" not in log:
      raise RuntimeError("CL harness blocks did not run")
    c = self.enq_clause(log["enq_rdy"], r)
    if c:
      return self.sig(c), self.where(enq, msg, deq, f"enq.rdy()={log['enq_rdy']} spec: {r!r}")
    c = self.deq_clause(log["deq_rdy"], r)
    if c:
      return self.sig(c), self.where(enq, msg, deq, f"deq.rdy()={log['deq_rdy']} spec: {r!r}")
    if log["did_enq"] != r.enq_fire or log["did_deq"] != r.deq_fire:
      raise RuntimeError("CL harness fired differently from the resolved offers")
    if r.deq_fire:
      v = self._msg_check(msg_int(self.etype, log["got"]), r, enq, msg, deq)
      if v: return v
    spec.commit(r, msg)
    self.after_commit(r)
    return self.count_check("after cycle", enq, msg, deq)

  # -- end of history ----------------------------------------------------------------------------
  def finish(self):
    s = self.spec
    if self.obs_delivered != s.delivered:
      raise RuntimeError("harness books differ from spec books")
    if not s.books_balance():
      return self.sig("order"), (f"cap={self.cap} delivered={s.delivered} stored={s.items} "
                                 f"accepted={s.accepted}")
    return None


def run_history(case, tolerate=None):
  ls = Lockstep(case, tolerate)
  for k, (enq, msg, deq, rst) in enumerate(case["hist"]):
    v = ls.cycle(enq, msg, deq, rst)
    if v:
      return v, ls, k
  return ls.finish(), ls, None


def replay(case):
  return run_history(case)[0]


# ---------------------------------------------------------------------------------------------
# the abstract transition table
# ---------------------------------------------------------------------------------------------

def table_entries(maxcap=TABLE_MAXCAP):
  out = []
  for key in sorted(CONFIGS):
    for cap in CONFIGS[key]["caps"]:
      if cap > maxcap:
        continue
      for head in range(cap):
        for occ in range(cap + 1):
          for enq in (0, 1):
            for deq in (0, 1):
              out.append((key, cap, occ, head, enq, deq))
  return out


def table_case(entry):
  key, cap, occ, head, enq, deq = entry
  hist, k = [], 0

  def step(e, d):
    nonlocal k
    k += 1
    hist.append([e, k, d, 0])
  for _ in range(head): step(1, 0)
  for _ in range(head): step(0, 1)
  for _ in range(occ): step(1, 0)
  probe = len(hist)
  step(enq, deq)
  step(0, 0)
  for _ in range(cap + 1): step(0, 1)
  return {"q": key, "cap": cap, "etype": "b16", "rseed": 0, "hist": hist}, probe


def exhaustive(ctx):
  done = 0
  for idx, entry in enumerate(table_entries()):
    if idx % ctx.nshards != ctx.shard:
      continue
    if ctx.out_of_time():
      break
    case, probe = table_case(entry)
    key, cap, occ, head, enq, deq = entry
    if key in SKIP:
      ctx.exclude("VERIF_C17_SKIP:" + key)
      continue
    ls = Lockstep(case, ctx.is_known)
    verdict = None
    for k, (e, m, d, rst) in enumerate(case["hist"]):
      if k == probe and verdict is None and ls.tolerated == 0:
        if (ls.spec.occ, ls.spec.head_idx) != (occ, head):
          raise RuntimeError(f"steering failed for {entry}: at occ={ls.spec.occ} head={ls.spec.head_idx}")
      verdict = ls.cycle(e, m, d, rst)
      if verdict:
        case = dict(case, hist=case["hist"][:k + 1])
        break
    if verdict is None:
      verdict = ls.finish()
    ctx.count()
    ctx.label("table_" + key)
    if ls.nontrivial():
      ctx.nontriv(sha12(case))
    try:
      ctx.judge(case, verdict)
    except Violation:
      return False
    if ls.tolerated == 0 or (occ, head, enq, deq) in ls.visited:
      done += 1
  ctx.extra["table_done"] = done
  return True


# ---------------------------------------------------------------------------------------------
# generated histories
# ---------------------------------------------------------------------------------------------

MODES = {          # probability (in 1/8) of an enq offer / a deq offer
  "fill": (7, 1), "drain": (1, 7), "stream": (7, 7), "random": (4, 4), "idle": (1, 1),
}


@st.composite
def cases(draw):
  key = draw(st.sampled_from(sorted(k for k in CONFIGS if k not in SKIP)))
  cfg = CONFIGS[key]
  cap = draw(st.sampled_from(cfg["caps"]))
  etype = draw(st.sampled_from(["b16", "b16", "b8", "b32", "st"]))
  width = ETYPES[etype]

  def step(mode):
    pe, pd = MODES[mode]
    return st.tuples(st.integers(0, 7).map(lambda x: int(x >= 8 - pe)),      # enq offer
                     st.integers(0, 7).map(lambda x: int(x >= 8 - pd)),      # deq offer
                     st.integers(0, 31),                                     # 31: reset
                     st.integers(0, 15),                                     # >=13: special msg
                     st.integers(0, (1 << width) - 1))

  segment = st.sampled_from(sorted(MODES)).flatmap(
    lambda m: st.lists(step(m), min_size=1, max_size=2 * cap + 6))
  segs = draw(st.lists(segment, min_size=1, max_size=8))
  hist = []
  for seg in segs:
    for (e, d, r, sp, rnd) in seg:
      k = len(hist) + 1
      msg = k % (1 << width)
      if sp == 13: msg = 0
      elif sp == 14: msg = (1 << width) - 1
      elif sp == 15: msg = rnd
      hist.append([e, msg, d, int(r == 31 and cfg["reset"])])
  return {"q": key, "cap": cap, "etype": etype, "rseed": draw(st.integers(0, 3)), "hist": hist}


GEN_TABLE = set()


def one(ctx, case):
  verdict, ls, k = run_history(case, ctx.is_known)
  ctx.count()
  ctx.label("hist_" + case["q"])
  ctx.label(f"hist_cap_{case['cap']}")
  ctx.label("hist_etype_" + case["etype"])
  ctx.label("cycles", ls.t)
  ctx.label("enq_fired", ls.fires[0])
  ctx.label("deq_fired", ls.fires[1])
  if ls.seen_full and ls.seen_drained: ctx.label("hist_full_and_drained")
  if ls.simul_at_boundary: ctx.label("hist_both_offered_at_boundary")
  if ls.wrapped: ctx.label("hist_pointer_wrap_nonpow2")
  if any(s[3] for s in case["hist"]): ctx.label("hist_with_reset")
  if ls.tolerated: ctx.label("hist_continued_past_known_bubble")
  if ls.nontrivial():
    ctx.nontriv(sha12(case))
  for ent in ls.visited:
    GEN_TABLE.add((case["q"], case["cap"]) + ent)
  ctx.judge(case, verdict)


def run_shard(ctx):
  if ctx.shard == 0:
    ctx.extra["valrdy_queues"] = valrdy_status()
  if not exhaustive(ctx):
    return

  @seed(ctx.hseed())
  @ctx.settings(ctx.n(9600, 400000))
  @given(cases())
  def t(case):
    if ctx.out_of_time():
      raise _BudgetGone()       # BaseException: leaves Hypothesis at once, no shrinking, no tail
    one(ctx, case)
    if ctx.evaluations % 397 == 0:
      ctx.sample(case)

  try:
    ctx.run(t, "c17")
  except _BudgetGone:
    pass                        # recorded by ctx.out_of_time() as budget_exhausted
  ctx.extra["gen_table"] = sorted(GEN_TABLE)


def extra_coverage(merged):
  ex = merged["extra"]
  want = table_entries()
  done = sum(ex.get("table_done", []))
  gen = set()
  for lst in ex.get("gen_table", []):
    gen.update(tuple(x) for x in lst)
  per_class = {}
  for (key, cap, occ, head, enq, deq) in want:
    per_class[key] = per_class.get(key, 0) + 1
  return {
    "table_entries_enumerated": done,
    "table_entries_expected": len(want),
    "table_complete": done == len(want),
    "table_entries_per_class": per_class,
    "table_max_capacity": TABLE_MAXCAP,
    "table_entries_also_hit_by_generated_histories": len(gen & set(want)),
    "valrdy_queues": (ex.get("valrdy_queues") or ["(shard 0 did not report)"])[0],
    "exhaustive": False,
    "note": "the abstract (occupancy, read-pointer index, enq offer, deq offer) table of every covered "
            "queue class is enumerated completely for capacities <= table_max_capacity "
            "(table_complete); longer histories and capacity 5 are sampled",
  }
