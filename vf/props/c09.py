"""C09 -- structurally illegal designs are always rejected at elaboration; legal ones elaborate."""
import copy

from hypothesis import given, seed, strategies as st

from vf.gen import rtl_gen, rtl_sim
from vf.ref.rtl_eval import Model, type_width, static_rw

ID = "C09"
LEVEL = "exploration"
RULE = ("case = (generated legal design, one injected structural defect or none, N statement/definition orders); defects: "
        "second block driving a block-driven signal (whole/whole, whole/part, field/parent, overlapping slices, slice of "
        "field), block driving a net-driven signal, net without driver, connection loop of 3-4 signals, port-direction "
        "rules (read/write of a child's wire, write to own input port, write to a child's output port, child output "
        "connected to own input port, in/out loopback inside the component, connection across two hierarchy levels), "
        "wrong assignment operator (= or <<= in @update, = or @= in @update_ff, <<= on a slice or field, also as the second assignment of a block, or right after a correct assignment inside one if / else / for body), two drivers two or more levels apart on one path of a three-level struct (with the disjoint legal counterpart), a constant tied from a forbidden position (own InPort of a non-top component, a child's OutPort / Wire, a grandchild's InPort; with the legal counterpart); first drivers may sit inside nested @s.func helpers. Oracle: a "
        "bit-level driver-set model over the IR confirms the legal design has one driver per driven bit and that a "
        "driver-conflict mutant has two; elaborate() must return for the legal design and raise an exception of the "
        "class(es) corresponding to the defect for every order. non-trivial = conflict between different Python signal "
        "objects (field/parent/slice overlap) or across components, or a legal design with a near miss (adjacent "
        "disjoint slices / sibling fields driven by different blocks); distinct by design+defect")
ASSUMPTIONS = [
  "where the injected defect necessarily coincides with a second one (e.g. writing a child's output that the child also "
  "drives is both a multi-writer conflict and a port-rule violation) either corresponding exception class is accepted",
  "two overlapping sibling slices written by the SAME block are not generated (pymtl3 rejects them although there is one "
  "driver; the property's defect list does not cover that shape either way)",
]
QUICK_S = 240
THOROUGH_S = 1200

R = rtl_gen.mkref


def class_facts(design, cn):
  """what drives each signal of class cn, from the IR"""
  c = design["classes"][cn]
  types = {n: t for n, d, t in c["ports"]}
  types.update({n: t for n, t in c["wires"]})
  kinds = {n: d for n, d, t in c["ports"]}
  kinds.update({n: "wire" for n, t in c["wires"]})
  blk_drv, net_drv = {}, {}
  for b in c["blocks"]:
    if b["kind"] != "comb": continue

    def walk(ss):
      for s in ss:
        if s[0] in ("assign", "assign_bit", "assign_struct"):
          if s[1]["inst"] == "": blk_drv.setdefault(s[1]["sig"], []).append((b["name"], s[1]))
        elif s[0] == "if": walk(s[2]); walk(s[3])
        elif s[0] == "for": walk(s[5])
        elif s[0] == "call": walk([f for f in c.get("funcs", []) if f["name"] == s[1]][0]["stmts"])
    walk(b["stmts"])
  for dst, src in c["conns"]:
    if dst["inst"] == "": net_drv.setdefault(dst["sig"], []).append(dst)
  ffw = set()
  for b in c["blocks"]:
    if b["kind"] == "ff":
      for s in b["stmts"]:
        pass
  return types, kinds, blk_drv, net_drv


def driver_counts(design):
  """bit-level driver sets of the legal design: {(key,bit): set(driver ids)} (top-level inputs excluded)"""
  m = Model(design)
  drv = {}
  for ip, kind, p in m.comb_units():
    if kind == "blk":
      _, w = static_rw(m, ip, p["stmts"])
      for kb in w: drv.setdefault(kb, set()).add(("blk", ip, p["name"]))
    else:
      dk, lo, hi = m.resolve(ip, p[0])
      for b in range(lo, hi): drv.setdefault((dk, b), set()).add(("net", ip, repr(p[0])))
  for ip, cn in m.insts.items():
    for b in m.classes[cn]["blocks"]:
      if b["kind"] == "ff":
        _, w = static_rw(m, ip, b["stmts"])
        for kb in w: drv.setdefault(kb, set()).add(("ff", ip, b["name"]))
  return drv


@st.composite
def defects(draw, design):
  """-> None or {"kind", "cls", "raw_decl", "raw_groups", "expect": [exception class names], "nontrivial": bool}"""
  kinds = ["none", "two_blocks", "blk_part_vs_whole", "overlap_slices", "blk_vs_net", "no_driver", "conn_loop",
           "read_child_wire", "write_child_wire", "write_own_inport", "write_child_outport", "child_out_to_own_in",
           "loopback_inside", "two_levels", "op_eq_update", "op_ilshift_update", "op_eq_ff", "op_imatmul_ff",
           "ff_slice", "ff_field", "op_second_eq_update", "op_second_ilshift_update", "op_second_imatmul_ff",
           "op_second_eq_ff", "op_after_good_update", "op_after_good_ff", "deep_conflict", "deep_conflict", "deep_disjoint_legal",
           "const_own_inport", "const_child_outport", "const_child_wire", "const_grandchild_inport", "const_legal"]
  kind = draw(st.sampled_from(kinds))
  if kind == "none": return None
  cns = sorted(design["classes"])
  if kind in ("read_child_wire", "write_child_wire", "write_child_outport", "child_out_to_own_in", "two_levels",
              "const_child_outport", "const_child_wire", "const_grandchild_inport", "const_legal"):
    cns = [x for x in cns if design["classes"][x]["children"]] or cns
    if kind in ("two_levels", "const_grandchild_inport"):
      cns = [x for x in cns if any(design["classes"][cc]["children"] for _, cc in design["classes"][x]["children"])] or cns
    if kind == "child_out_to_own_in":
      cns = [x for x in cns if x != design["top"]] or cns
  if kind in ("loopback_inside", "const_own_inport"):
    cns = [x for x in cns if x != design["top"]] or cns
  cn = draw(st.sampled_from(cns))
  c = design["classes"][cn]
  types, skind, blk_drv, net_drv = class_facts(design, cn)
  MW, NW, IC, ST = "MultiWriterError", "NoWriterError", "InvalidConnectionError", "SignalTypeError"
  UB, UF, UN = "UpdateBlockWriteError", "UpdateFFBlockWriteError", "UpdateFFNonTopLevelSignalError"

  def blk(lines, deco="@update", name="bad_blk"):
    return [deco, f"def {name}():"] + ["  " + l for l in lines]

  def sname(ref):
    s = "s." + ref["sig"]
    for f in ref["fld"]: s += f"[{f}]" if isinstance(f, int) else f".{f}"
    if ref["sl"] is not None: s += f"[{ref['sl'][0]}:{ref['sl'][1]}]"
    return s

  def zero_of(t):
    return "0" if t[0] == "b" else None

  d = {"kind": kind, "cls": cn, "raw_decl": [], "raw_groups": [], "nontrivial": False}
  if kind == "two_blocks":
    cands = [(n, r) for n, rs in blk_drv.items() for _, r in rs]
    if not cands: return None
    n, r = draw(st.sampled_from(cands))
    # write exactly the same object again
    tgt = dict(r)
    d["raw_groups"].append(blk([f"{sname(tgt)} @= 0"]))
    d["expect"] = [MW]
    return d
  if kind == "blk_part_vs_whole":
    cands = [(n, r) for n, rs in blk_drv.items() for _, r in rs]
    if not cands: return None
    n, r = draw(st.sampled_from(cands))
    t = types[n]
    if r["fld"] or r["sl"] is not None:
      tgt = R(n)                                    # existing part, new whole
      if t[0] == "s":
        nn = n.replace("[", "_").replace("]", "").replace(".", "_")
        d["raw_groups"].append(blk([f"s.{n} @= s.{nn}_src"]))
        d["raw_decl"].append(f"s.{nn}_src = Wire( {_tname(design, t)} )")
      else:
        d["raw_groups"].append(blk([f"s.{n} @= 0"]))
    else:
      # existing whole, new part
      if t[0] == "b":
        if t[1] < 2: return None
        a = draw(st.integers(0, t[1] - 1)); b = draw(st.integers(a + 1, t[1]))
        if (a, b) == (0, t[1]): b -= 1
        d["raw_groups"].append(blk([f"s.{n}[{a}:{b}] @= 0"]))
      else:
        from vf.gen.rtl_gen import leaves_of_type
        fld, lt = draw(st.sampled_from(leaves_of_type(t)))
        d["raw_groups"].append(blk([f"{sname(R(n, fld=fld))} @= 0"]))
    d["expect"] = [MW]; d["nontrivial"] = True
    return d
  if kind == "overlap_slices":
    cands = [(n, r) for n, rs in blk_drv.items() for _, r in rs if r["sl"] is not None]
    if not cands: return None
    n, r = draw(st.sampled_from(cands))
    lo, hi = r["sl"]
    base = dict(r); base["sl"] = None
    import vf.ref.rtl_eval as E
    t = types[n]
    pw = type_width(E.field_type(t, r["fld"])) if r["fld"] else type_width(t)
    a = draw(st.integers(max(0, lo - 2), hi - 1))
    b = draw(st.integers(max(a + 1, lo + 1), min(pw, hi + 2)))
    if (a, b) == (lo, hi):
      if b < pw: b += 1
      elif a > 0: a -= 1
      else: return None
    d["raw_groups"].append(blk([f"{sname(base)}[{a}:{b}] @= 0"]))
    d["expect"] = [MW]; d["nontrivial"] = True
    return d
  if kind == "blk_vs_net":
    cands = [(n, r) for n, rs in net_drv.items() for r in rs if types[n][0] == "b"]
    if not cands: return None
    n, r = draw(st.sampled_from(cands))
    how = draw(st.integers(0, 1))
    if how == 0 or type_width(types[n]) < 2 or r["sl"] is not None or r["fld"]:
      d["raw_groups"].append(blk([f"{sname(r)} @= 0"]))
    else:
      d["raw_groups"].append(blk([f"s.{n}[0:1] @= 0"])); d["nontrivial"] = True
    d["expect"] = [MW]
    return d
  if kind == "no_driver":
    w = draw(st.integers(1, 8))
    d["raw_decl"] += [f"s.nd1 = Wire( Bits{w} )", f"s.nd2 = Wire( Bits{w} )"]
    d["raw_groups"].append([draw(st.sampled_from(["s.nd1 //= s.nd2", "connect( s.nd2, s.nd1 )"]))])
    d["expect"] = [NW]
    return d
  if kind == "conn_loop":
    k = draw(st.integers(3, 4)); w = draw(st.integers(1, 8))
    for i in range(k): d["raw_decl"].append(f"s.lp{i} = Wire( Bits{w} )")
    d["raw_groups"].append([f"s.lp0 //= {draw(st.integers(0, (1 << w) - 1))}"])
    for i in range(k):
      d["raw_groups"].append([f"connect( s.lp{i}, s.lp{(i + 1) % k} )"])
    d["expect"] = [IC]
    return d
  if kind in ("read_child_wire", "write_child_wire", "write_child_outport"):
    ch = [(iname, ccn) for iname, ccn in c["children"]]
    if not ch: return None
    iname, ccn = draw(st.sampled_from(ch))
    cc = design["classes"][ccn]
    if kind == "write_child_outport":
      outs = [(n, t) for n, dr, t in cc["ports"] if dr == "out" and t[0] == "b"]
      if not outs: return None
      n, t = draw(st.sampled_from(outs))
      d["raw_groups"].append(blk([f"s.{iname}.{n} @= 0"]))
      d["expect"] = [ST, MW]; d["nontrivial"] = True
      return d
    ws = [(n, t) for n, t in cc["wires"] if t[0] == "b"]
    if not ws: return None
    n, t = draw(st.sampled_from(ws))
    if kind == "read_child_wire":
      d["raw_decl"].append(f"s.rcw = Wire( Bits{t[1]} )")
      d["raw_groups"].append(blk([f"s.rcw @= s.{iname}.{n}"]))
      d["expect"] = [ST]
    else:
      d["raw_groups"].append(blk([f"s.{iname}.{n} @= 0"]))
      d["expect"] = [ST, MW]
    d["nontrivial"] = True
    return d
  if kind == "write_own_inport":
    ins = [(n, t) for n, dr, t in c["ports"] if dr == "in" and t[0] == "b"]
    if not ins: return None
    n, t = draw(st.sampled_from(ins))
    d["raw_groups"].append(blk([f"s.{n} @= 0"]))
    d["expect"] = [ST, MW]
    return d
  if kind == "child_out_to_own_in":
    if cn == design["top"]: return None
    ch = [(iname, ccn) for iname, ccn in c["children"]]
    if not ch: return None
    iname, ccn = draw(st.sampled_from(ch))
    outs = [(n, t) for n, dr, t in design["classes"][ccn]["ports"] if dr == "out" and t[0] == "b"]
    if not outs: return None
    n, t = draw(st.sampled_from(outs))
    d["raw_decl"].append(f"s.xin = InPort( Bits{t[1]} )")
    d["raw_groups"].append([draw(st.sampled_from([f"s.xin //= s.{iname}.{n}", f"connect( s.{iname}.{n}, s.xin )"]))])
    d["expect"] = [ST]; d["nontrivial"] = True
    return d
  if kind == "loopback_inside":
    if cn == design["top"]: return None
    outs = [(n, t) for n, dr, t in c["ports"] if dr == "out" and t[0] == "b"]
    if not outs: return None
    n, t = draw(st.sampled_from(outs))
    d["raw_decl"].append(f"s.xin = InPort( Bits{t[1]} )")
    d["raw_groups"].append([draw(st.sampled_from([f"s.xin //= s.{n}", f"connect( s.{n}, s.xin )"]))])
    d["expect"] = [IC]; d["nontrivial"] = True
    return d
  if kind == "two_levels":
    ch = [(iname, ccn) for iname, ccn in c["children"] if design["classes"][ccn]["children"]]
    if not ch: return None
    iname, ccn = draw(st.sampled_from(ch))
    gname, gcn = draw(st.sampled_from(design["classes"][ccn]["children"]))
    outs = [(n, t) for n, dr, t in design["classes"][gcn]["ports"] if dr == "out" and t[0] == "b"]
    if not outs: return None
    n, t = draw(st.sampled_from(outs))
    d["raw_decl"].append(f"s.far = Wire( Bits{t[1]} )")
    d["raw_groups"].append([f"connect( s.far, s.{iname}.{gname}.{n} )"])
    d["expect"] = [ST]; d["nontrivial"] = True
    return d
  if kind.startswith("const_"):
    # a constant tied to a fresh port / wire from a position the port rules forbid (own InPort of a non-top
    # component, a child's OutPort or Wire, a grandchild's InPort) - or, for const_legal, from the allowed ones.
    # The fresh signal has no other driver, so the position is the only defect.
    cw = draw(st.integers(1, 8)); cv = draw(st.integers(0, (1 << cw) - 1))
    val = draw(st.sampled_from([str(cv), f"Bits{cw}({cv})"]))
    conn = lambda a: [draw(st.sampled_from([f"{a} //= {val}", f"connect( {a}, {val} )", f"connect( {val}, {a} )"]))]
    d["extra"] = {}
    if kind == "const_own_inport":
      if cn == design["top"]: return None
      d["raw_decl"].append(f"s.cinp = InPort( Bits{cw} )")
      d["raw_groups"].append(conn("s.cinp")); d["expect"] = [ST]; d["nontrivial"] = True
      return d
    ch = [(iname, ccn) for iname, ccn in c["children"]]
    if not ch: return None
    iname, ccn = draw(st.sampled_from(ch))
    if kind == "const_grandchild_inport":
      gch = design["classes"][ccn]["children"]
      if not gch: return None
      gname, gcn = draw(st.sampled_from(gch))
      if gcn in (cn, ccn): return None
      d["extra"][gcn] = {"raw_decl": [f"s.cinp = InPort( Bits{cw} )"], "raw_groups": []}
      d["raw_groups"].append(conn(f"s.{iname}.{gname}.cinp")); d["expect"] = [ST]; d["nontrivial"] = True
      return d
    if ccn == cn: return None
    if kind == "const_legal":
      # parent ties a child's fresh InPort, its own fresh OutPort and its own fresh Wire to constants: all allowed
      d["extra"][ccn] = {"raw_decl": [f"s.cinp = InPort( Bits{cw} )"], "raw_groups": []}
      d["raw_decl"] += [f"s.coutp = OutPort( Bits{cw} )", f"s.cwire = Wire( Bits{cw} )"]
      for a in (f"s.{iname}.cinp", "s.coutp", "s.cwire"):
        if draw(st.integers(0, 3)) > 0: d["raw_groups"].append(conn(a))
      d["expect"] = []; d["legal"] = True; d["nontrivial"] = True
      return d
    decl = f"s.cport = OutPort( Bits{cw} )" if kind == "const_child_outport" else f"s.cport = Wire( Bits{cw} )"
    d["extra"][ccn] = {"raw_decl": [decl], "raw_groups": []}
    d["raw_groups"].append(conn(f"s.{iname}.cport")); d["expect"] = [ST]; d["nontrivial"] = True
    return d
  # operator checks: on a fresh wire
  if kind in ("deep_conflict", "deep_disjoint_legal"):
    # a wire of a three-level nested struct type (PRELUDE) with two drivers at different depths of one path
    # (dw / dw.m / dw.m.p / dw.m.p.a / dw.m.p.a[0:2], or dw / dw.m / dw.m.q / dw.m.q[1:3]): a block or a net at the
    # deeper level against a block at an ancestor level, any number of undriven levels in between
    d["struct"] = True
    d["raw_decl"] = ["s.dw = Wire( DeepOuter )", "s.dw_src = Wire( DeepOuter )"]
    d["raw_groups"].append(blk(["s.dw_src @= DeepOuter()"], name="deep_src"))
    leafy = lambda l: l.endswith(("]", ".a", ".b", ".q", ".r"))
    rhs = lambda l: "0" if leafy(l) else l.replace("s.dw", "s.dw_src")
    if kind == "deep_conflict":
      chain = draw(st.sampled_from([["s.dw", "s.dw.m", "s.dw.m.p", "s.dw.m.p.a", "s.dw.m.p.a[0:2]"],
                                    ["s.dw", "s.dw.m", "s.dw.m.q", "s.dw.m.q[1:3]"],
                                    ["s.dw", "s.dw.m", "s.dw.m.p", "s.dw.m.p.b"]]))
      i = draw(st.integers(0, len(chain) - 2)); j = draw(st.integers(i + 1, len(chain) - 1))
      if draw(st.booleans()): i, j = j, i
      l1, l2 = chain[i], chain[j]
      if draw(st.integers(0, 2)) == 0:
        d["raw_groups"].append([f"{l1} //= {'1' if leafy(l1) else rhs(l1)}"])
      else:
        d["raw_groups"].append(blk([f"{l1} @= {rhs(l1)}"], name="bad_blk1"))
      d["raw_groups"].append(blk([f"{l2} @= {rhs(l2)}"], name="bad_blk2"))
      d["expect"] = [MW]; d["nontrivial"] = abs(i - j) >= 2
      return d
    # pairwise disjoint parts of the same wire, each with its own driver: must elaborate
    parts = draw(st.sampled_from([["s.dw.m.p.a[0:2]", "s.dw.m.p.a[2:4]", "s.dw.m.p.b", "s.dw.m.q[0:3]", "s.dw.m.q[3:6]", "s.dw.r"],
                                  ["s.dw.m.p", "s.dw.m.q[0:1]", "s.dw.m.q[1:6]", "s.dw.r"],
                                  ["s.dw.m.p.a", "s.dw.m.p.b", "s.dw.m.q", "s.dw.r[0:2]"],
                                  ["s.dw.m", "s.dw.r"]]))
    blks = {}
    for l in parts:
      how = draw(st.integers(0, 3))
      if how == 0: continue                                            # left undriven
      if how == 1: d["raw_groups"].append([f"{l} //= {'1' if leafy(l) else rhs(l)}"])
      else: blks.setdefault(how, []).append(f"{l} @= {rhs(l)}")
    for k, lines in blks.items():
      d["raw_groups"].append(blk(lines, name=f"ok_blk{k}"))
    d["expect"] = []; d["legal"] = True; d["nontrivial"] = len(blks) == 2
    return d
  w = draw(st.integers(2, 8))
  d["raw_decl"].append(f"s.opw = Wire( Bits{w} )")
  if kind == "op_eq_update": d["raw_groups"].append(blk([f"s.opw = Bits{w}(1)"])); d["expect"] = [UB]
  elif kind == "op_ilshift_update": d["raw_groups"].append(blk([f"s.opw <<= 1"])); d["expect"] = [UB]
  elif kind == "op_eq_ff": d["raw_groups"].append(blk([f"s.opw = Bits{w}(1)"], "@update_ff")); d["expect"] = [UF]
  elif kind == "op_imatmul_ff": d["raw_groups"].append(blk([f"s.opw @= 1"], "@update_ff")); d["expect"] = [UF]
  elif kind == "op_second_eq_update":
    d["raw_groups"].append(blk([f"s.opw @= 0", "if s.reset:", f"  s.opw = Bits{w}(1)"])); d["expect"] = [UB]; d["nontrivial"] = True
  elif kind == "op_second_ilshift_update":
    d["raw_groups"].append(blk([f"s.opw @= 0", "if s.reset:", f"  s.opw <<= 1"])); d["expect"] = [UB]; d["nontrivial"] = True
  elif kind == "op_second_imatmul_ff":
    d["raw_groups"].append(blk([f"s.opw <<= 1", "if s.reset:", f"  s.opw @= 0"], "@update_ff")); d["expect"] = [UF]; d["nontrivial"] = True
  elif kind == "op_second_eq_ff":
    d["raw_groups"].append(blk([f"s.opw <<= 1", "if s.reset:", f"  s.opw = Bits{w}(0)"], "@update_ff")); d["expect"] = [UF]; d["nontrivial"] = True
  elif kind in ("op_after_good_update", "op_after_good_ff"):
    # the wrong operator on a second signal, right after a correct assignment inside the same compound statement
    # (if body / else body / for body / nested if)
    ff = kind.endswith("_ff")
    good = "<<=" if ff else "@="
    bad = draw(st.sampled_from(["=", "@="] if ff else ["=", "<<="]))
    d["raw_decl"].append(f"s.opw2 = Wire( Bits{w} )")
    g, b_ = f"s.opw {good} 1", (f"s.opw2 {bad} Bits{w}(1)" if bad == "=" else f"s.opw2 {bad} 1")
    shape = draw(st.integers(0, 4))
    if shape == 0: body = ["if s.reset:", "  " + g, "  " + b_]
    elif shape == 1: body = ["if s.reset:", "  " + g, "else:", "  " + g, "  " + b_]
    elif shape == 2: body = ["for i in range(2):", "  " + g, "  " + b_]
    elif shape == 3: body = ["if s.reset:", "  if s.reset:", "    " + g, "  " + b_]
    else: body = ["if s.reset:", "  " + g, "  if s.reset:", "    " + b_]
    d["raw_groups"].append(blk(body, "@update_ff" if ff else "@update")); d["expect"] = [UF if ff else UB]; d["nontrivial"] = True
  elif kind == "ff_slice": d["raw_groups"].append(blk([f"s.opw[0:1] <<= 1"], "@update_ff")); d["expect"] = [UN]
  elif kind == "ff_field":
    d["raw_decl"] = ["s.opst = Wire( BadOpStruct )"]
    d["struct"] = True
    d["raw_groups"].append(blk(["s.opst.fa <<= 1"], "@update_ff")); d["expect"] = [UN]
  return d


def _some_inst(design, cn):
  return ""


def _tname(design, t):
  from vf.gen.rtl_render import Renderer
  r = Renderer(design)
  # struct names are assigned in first-use order while rendering: render once to learn them
  r.source("probe")
  return r.tname(t)


def apply_defect(design, defect):
  d = copy.deepcopy(design)
  if defect is None: return d
  c = d["classes"][defect["cls"]]
  c["raw_decl"] = list(defect["raw_decl"])
  c["raw_groups"] = [list(g) for g in defect["raw_groups"]]
  for cn2, x in (defect.get("extra") or {}).items():           # declarations the defect needs in other classes
    c2 = d["classes"][cn2]
    c2["raw_decl"] = list(c2.get("raw_decl", [])) + list(x["raw_decl"])
    c2["raw_groups"] = [list(g) for g in c2.get("raw_groups", [])] + [list(g) for g in x["raw_groups"]]
  return d


PRELUDE = ("\n@bitstruct\nclass BadOpStruct:\n  fa: Bits2\n  fb: Bits3\n"
           "\n@bitstruct\nclass DeepInner:\n  a: Bits4\n  b: Bits2\n"
           "\n@bitstruct\nclass DeepMid:\n  p: DeepInner\n  q: Bits6\n"
           "\n@bitstruct\nclass DeepOuter:\n  m: DeepMid\n  r: Bits3\n")


def judge(case, stats=None):
  design, defect = case["design"], case["defect"]
  if defect is None or defect["kind"] in ("two_blocks", "blk_part_vs_whole", "overlap_slices", "blk_vs_net"):
    drv = driver_counts(design)
    multi = [k for k, v in drv.items() if len(v) > 1]
    if multi: raise AssertionError(f"harness: legal design has multiply driven bits {multi[:3]}")
  d2 = apply_defect(design, defect)
  import vf.gen.rtl_render as RR
  for vi, variant in enumerate(case["variants"]):
    # struct prelude for the ff_field defect
    if defect is not None and defect.get("struct"):
      orig = RR.Renderer.source

      def patched(self, tag, _o=orig):
        src = _o(self, tag)
        return src.replace("from pymtl3 import *\n", "from pymtl3 import *\n" + PRELUDE, 1)
      RR.Renderer.source = patched
    try:
      s = rtl_sim.Sim(d2, variant)
    finally:
      if defect is not None and defect.get("struct"):
        RR.Renderer.source = orig
    try:
      try:
        s.elaborate()
        raised = None
      except Exception as ex:
        import traceback
        tb = traceback.extract_tb(ex.__traceback__)
        inner = [f for f in tb if "/pymtl3/" in f.filename]
        if not inner: raise
        raised = ex
      if defect is None or defect.get("legal"):
        if raised is not None:
          return (f"legal_design_rejected:{type(raised).__name__}", f"variant {vi}: {str(raised)[:300]}")
      else:
        if raised is None:
          return (f"{defect['kind']}:accepted", f"variant {vi}: elaborate() returned for a design with defect {defect['kind']} in {defect['cls']}: {defect['raw_groups']}")
        if type(raised).__name__ not in defect["expect"]:
          return (f"{defect['kind']}:wrong_error:{type(raised).__name__}", f"variant {vi}: expected {defect['expect']}: {str(raised)[:300]}")
    finally:
      s.close()
  return None


def near_miss(design):
  """legal design in which two different blocks drive adjacent slices or sibling fields of one signal"""
  for cn, c in design["classes"].items():
    _, _, blk_drv, net_drv = class_facts(design, cn)
    for n, rs in blk_drv.items():
      if len({b for b, _ in rs}) >= 2 or (rs and n in net_drv): return True
  return False


@st.composite
def cases(draw, nvar):
  hier = draw(st.booleans())
  design = draw(rtl_gen.designs(max_steps=5, min_depth=2 if hier else 0, child_bias=1 if hier else 0, ifcs=draw(st.booleans())))
  defect = draw(defects(design))
  variants = [None]
  for i in range(nvar - 1):
    variants.append({"seed": draw(st.integers(0, 2 ** 30)), "conn_style": True, "perm_stmts": True,
                     "perm_blocks": True, "interleave": draw(st.booleans())})
  return {"design": design, "defect": defect, "variants": variants}


def run_shard(ctx):
  nvar = 4 if ctx.tier == "quick" else 10

  @seed(ctx.hseed())
  @ctx.settings(ctx.n(2400, 60000))
  @given(cases(nvar))
  def t(case):
    if ctx.out_of_time(): return
    ctx.count()
    v = judge(case)
    df = case["defect"]
    ctx.label("defect_" + (df["kind"] if df else "none"))
    if v is None:
      if df is None:
        if near_miss(case["design"]): ctx.nontriv(["legal", case["design"]])
      elif df["nontrivial"] or df["cls"] != case["design"]["top"]:
        ctx.nontriv([df, case["design"]])
    ctx.judge(case, v)
    if ctx.evaluations % 41 == 0:
      ctx.sample({"defect": df and {k: df[k] for k in ("kind", "cls", "raw_decl", "raw_groups", "expect")}})

  ctx.run(t, "c09")


def replay(case):
  for _ in range(3):
    v = judge(case)
    if v is not None: return v
  return None
