"""E3 -- shared Hypothesis strategies for widths, values and ints."""
from hypothesis import strategies as st

BOUNDARY_WIDTHS = [1, 2, 3, 4, 7, 8, 9, 15, 16, 17, 31, 32, 33, 63, 64, 65, 127, 128, 129,
                   255, 256, 257, 384, 511, 512, 513, 1022, 1023]


def widths(lo=1, hi=1023):
  b = [w for w in BOUNDARY_WIDTHS if lo <= w <= hi]
  parts = [st.integers(lo, hi), st.integers(lo, min(hi, 16))]
  if b:
    parts.append(st.sampled_from(b))
  return st.one_of(*parts)


@st.composite
def uvalue(draw, n):
  """unsigned value of width n, biased to boundaries."""
  top = (1 << n) - 1
  kind = draw(st.integers(0, 9))
  if kind == 0: return 0
  if kind == 1: return top
  if kind == 2: return 1 if n >= 1 else 0
  if kind == 3: return 1 << (n - 1)
  if kind == 4: return max(0, (1 << (n - 1)) - 1)
  if kind == 5: return min(top, (1 << (n - 1)) + 1)
  if kind == 6:
    k = draw(st.integers(0, n - 1))
    d = draw(st.integers(-1, 1))
    return max(0, min(top, (1 << k) + d))
  if kind == 7: return max(0, top - draw(st.integers(0, 3)))
  return draw(st.integers(0, top))


@st.composite
def any_int(draw, n):
  """an int below / inside / above the range of width n."""
  top = (1 << n) - 1
  low = -(1 << (n - 1))
  kind = draw(st.integers(0, 9))
  if kind == 0: return top + 1
  if kind == 1: return top + draw(st.integers(1, 1 << (n + 2)))
  if kind == 2: return low
  if kind == 3: return low - 1
  if kind == 4: return low - draw(st.integers(1, 1 << (n + 2)))
  if kind == 5: return draw(st.integers(low, -1))
  if kind == 6: return -1
  if kind == 7: return 1 << n
  return draw(uvalue(n))
