"""Extra hand-written PyMTL designs for the E2 calibration corpus (vf.sv.corpus): constructs that
pymtl3's own test-case repository does not cover.  They carry no upstream vectors, so a
disagreement here is triaged by hand (E2 bug or translation defect) and never counted as clean."""
from pymtl3 import *


@bitstruct
class XPoint:
  x: Bits8
  y: Bits4

@bitstruct
class XNested:
  tag: Bits3
  pts: [XPoint] * 2
  w: Bits16


class XArith(Component):
  def construct(s):
    s.a = InPort(Bits8); s.b = InPort(Bits8); s.c = InPort(Bits16); s.sh = InPort(Bits4)
    s.o_add = OutPort(Bits8); s.o_sub = OutPort(Bits8); s.o_mul = OutPort(Bits8)
    s.o_shl = OutPort(Bits16); s.o_shr = OutPort(Bits16); s.o_cmp = OutPort(Bits6)
    s.o_log = OutPort(Bits8); s.o_inv = OutPort(Bits16); s.o_ife = OutPort(Bits16)
    s.o_red = OutPort(Bits3); s.o_neg = OutPort(Bits8)
    @update
    def up():
      s.o_add @= s.a + s.b
      s.o_sub @= s.a - s.b
      s.o_mul @= s.a * s.b
      s.o_shl @= s.c << zext(s.sh, 16)
      s.o_shr @= s.c >> zext(s.sh, 16)
      s.o_cmp @= concat(s.a < s.b, s.a <= s.b, s.a > s.b, s.a >= s.b, s.a == s.b, s.a != s.b)
      s.o_log @= (s.a & s.b) | (s.a ^ ~s.b)
      s.o_inv @= ~s.c
      s.o_ife @= s.c if s.a > s.b else zext(s.a, 16) if s.sh[0] else zext(s.b, 16)
      s.o_red @= concat(reduce_and(s.a), reduce_or(s.a), reduce_xor(s.a))
      s.o_neg @= ~s.a + 1


class XExt(Component):
  def construct(s):
    s.a = InPort(Bits8); s.b = InPort(Bits8); s.w = InPort(Bits70)
    s.o_z = OutPort(Bits16); s.o_s = OutPort(Bits16); s.o_t = OutPort(Bits4)
    s.o_sb = OutPort(Bits16); s.o_ss = OutPort(Bits16); s.o_w = OutPort(Bits70); s.o_wt = OutPort(Bits100)
    s.o_ws = OutPort(Bits100)
    @update
    def up():
      s.o_z @= zext(s.a, 16)
      s.o_s @= sext(s.a, 16)
      s.o_t @= trunc(s.a, 4)
      s.o_sb @= sext(s.a[2:6], 16)
      s.o_ss @= sext(s.a[7], 16)
      s.o_w @= s.w + 1
      s.o_wt @= zext(s.w, 100) << 20
      s.o_ws @= sext(s.w, 100)


class XSextCompound(Component):
  """sign extension of a compound operand (DESIGN.md section 4 row 4)"""
  def construct(s):
    s.a = InPort(Bits8); s.b = InPort(Bits8)
    s.o = OutPort(Bits16)
    @update
    def up():
      s.o @= sext(s.a + s.b, 16)


class XLoops(Component):
  def construct(s):
    s.in_ = [InPort(Bits8) for _ in range(6)]
    s.out = [OutPort(Bits8) for _ in range(6)]
    s.rev = OutPort(Bits8)
    s.v = InPort(Bits8)
    s.acc = OutPort(Bits8)
    s.nst = [OutPort(Bits4) for _ in range(4)]
    @update
    def up_down():
      for i in range(6):
        s.out[i] @= s.in_[5 - i]
    @update
    def up_rev():
      for i in range(8):
        s.rev[i] @= s.v[7 - i]
    @update
    def up_acc():
      t = Bits8(0)
      for i in range(0, 6, 2):
        t = t + s.in_[i]
      s.acc @= t
    @update
    def up_nest():
      for i in range(2):
        for j in range(2):
          s.nst[i * 2 + j] @= zext(s.v[i * 4 + j * 2 : i * 4 + j * 2 + 2] + 1, 4) if i == j else s.v[0:4]


class XLoopsDown(Component):
  def construct(s):
    s.in_ = [InPort(Bits8) for _ in range(6)]
    s.out = [OutPort(Bits8) for _ in range(6)]
    s.o2 = OutPort(Bits8)
    @update
    def up_down():
      s.out[0] @= s.in_[5]
      for i in range(5, 0, -1):
        s.out[i] @= s.in_[5 - i]
    @update
    def up_down2():
      t = Bits8(0)
      for i in range(4, 0, -2):
        t = t + s.in_[i]
      s.o2 @= t


class XStruct(Component):
  def construct(s):
    s.in_ = InPort(XNested)
    s.sel = InPort(Bits1)
    s.out = OutPort(XNested)
    s.px = OutPort(Bits8)
    s.flat = OutPort(Bits43)
    s.w = Wire(XNested)
    @update
    def up():
      s.w @= s.in_
      s.w.pts[0].x @= s.in_.pts[1].x + 1
      s.w.tag @= 5
    @update
    def up2():
      s.out @= s.w
      s.px @= s.in_.pts[s.sel].x
      s.flat @= concat(s.in_.tag, s.in_.pts[1].x, s.in_.pts[1].y, s.in_.pts[0].x, s.in_.pts[0].y, s.in_.w)


class XSeq(Component):
  def construct(s):
    s.en = InPort(); s.d = InPort(Bits8); s.waddr = InPort(Bits2); s.raddr = InPort(Bits2)
    s.q = OutPort(Bits8); s.cnt = OutPort(Bits4); s.rd = OutPort(Bits8)
    s.mem = [Wire(Bits8) for _ in range(4)]
    s.cnt_r = Wire(Bits4)
    @update_ff
    def ff():
      if s.reset:
        s.cnt_r <<= 0
        s.q <<= 0
        for i in range(4):
          s.mem[i] <<= 0
      elif s.en:
        s.cnt_r <<= s.cnt_r + 1
        s.q <<= s.d
        s.mem[s.waddr] <<= s.d
    @update
    def up():
      s.rd @= s.mem[s.raddr]
    s.cnt //= s.cnt_r


class XLeaf(Component):
  def construct(s, k):
    s.in_ = InPort(Bits8); s.out = OutPort(Bits8)
    s.r = Wire(Bits8)
    @update_ff
    def ff():
      s.r <<= s.in_ + k
    s.out //= s.r


class XHier(Component):
  def construct(s):
    s.in_ = InPort(Bits8); s.out = [OutPort(Bits8) for _ in range(3)]
    s.sum = OutPort(Bits8)
    s.leaf = [XLeaf(i + 1) for i in range(3)]
    for i in range(3):
      s.leaf[i].in_ //= s.in_
      s.out[i] //= s.leaf[i].out
    @update
    def up():
      s.sum @= s.leaf[0].out + s.leaf[1].out + s.leaf[2].out
    s.lam = Wire(Bits8)
    s.lam //= lambda: s.in_ + 3


class XSlices(Component):
  def construct(s):
    s.a = InPort(Bits32); s.i = InPort(Bits3)
    s.o1 = OutPort(Bits8); s.o2 = OutPort(Bits32); s.o3 = OutPort(Bits1); s.o4 = OutPort(Bits4)
    s.o1 //= s.a[8:16]
    @update
    def up():
      s.o2 @= 0
      s.o2[0:8] @= s.a[24:32]
      s.o2[16:32] @= s.a[0:16]
      s.o3 @= s.a[zext(s.i, 5)]
      for k in range(4):
        s.o4[k] @= s.a[k * 8 + 7]


EXTRA = [
  ("extra_XArith", XArith), ("extra_XExt", XExt), ("extra_XSextCompound", XSextCompound), ("extra_XLoops", XLoops), ("extra_XLoopsDown", XLoopsDown), ("extra_XStruct", XStruct),
  ("extra_XSeq", XSeq), ("extra_XHier", XHier), ("extra_XSlices", XSlices),
]
