"""Static analysis of parsed designs (engine E2): structural problems and per-bit driver sets.

driver model
  * every `assign`, every always_comb / always_ff block and every instance (through its output
    ports) is ONE driver for each bit it may assign;
  * for-loops whose header only depends on constants (always the case in emitted text) are unrolled
    concretely, so `for (i...) a[i] = ...` yields exactly the bits that are written;  an index that
    depends on a signal is a may-write / may-read of every element it can select;
  * both branches of every `if` count (may-assign).
"""
from .lexer import SVElabError, SVSyntaxError, SVUnsupportedError, RESERVED
from . import interp as I
from .parser import (Num, Ref, Concat, Repl, Cast, Unary, Binary, Cond, Pattern, Block, If, For,
                     Assign, Null, ParamDecl, VarDecl, Inst, ContAssign, Always)

_UNROLL_LIMIT = 1 << 14
_OFFSET_SET_LIMIT = 1 << 12


def _ranges(mask):
  """bit mask -> '[7:4],[1]'"""
  out = []
  i = 0
  while mask:
    if mask & 1:
      j = i
      while (mask >> 1) & 1:
        mask >>= 1
        j += 1
      out.append("[%d:%d]" % (j, i) if j != i else "[%d]" % i)
      i = j
    mask >>= 1
    i += 1
  return ",".join(reversed(out))


def _children(e):
  t = type(e)
  if t is Ref:
    for s in e.sels:
      for x in s[1:]:
        if not isinstance(x, str):
          yield x
  elif t is Cast or t is Unary:
    yield e.expr
  elif t is Binary:
    yield e.lhs
    yield e.rhs
  elif t is Cond:
    yield e.cond
    yield e.a
    yield e.b
  elif t is Concat or t is Repl:
    if t is Repl:
      yield e.count
    for p in e.parts:
      yield p
    if e.sel is not None:
      for x in e.sel[1:]:
        yield x
  elif t is Pattern:
    for p in e.items:
      yield p


# ------------------------------------------------------------------------------------------
# structural problems
# ------------------------------------------------------------------------------------------

def structural_problems(design):
  out = []
  ast = design.ast
  for name, line in design.dup_typedefs:
    out.append("type %r defined twice (line %d)" % (name, line))
  for name, line in design.dup_modules:
    out.append("module %r defined twice (line %d)" % (name, line))
  for word, line in ast.reserved_ids:
    out.append("reserved word %r used as identifier (line %d)" % (word, line))
  for name in design.typedef_asts:
    if name in design.module_asts:
      out.append("name %r is both a type and a module" % name)
  # typedefs
  known_types = set()
  for td in ast.typedefs:
    seen = set()
    for dt, fname, fl in td.fields:
      if fname in seen:
        out.append("struct %s: member %r declared twice (line %d)" % (td.name, fname, fl))
      seen.add(fname)
      if dt.base == "named" and dt.name not in known_types:
        out.append("struct %s: member %r uses type %r before its definition (line %d)"
                   % (td.name, fname, dt.name, fl))
    known_types.add(td.name)
  for m in ast.modules:
    _module_structure(design, m, out)
  return out


def _module_structure(design, m, out):
  mod = m.name
  decl = {}        # name -> (kind, line, order)
  order = [0]

  def declare(name, kind, line):
    order[0] += 1
    if name in decl:
      out.append("module %s: %s %r redeclares %s %r of line %d (line %d)"
                 % (mod, kind, name, decl[name][0], name, decl[name][1], line))
    else:
      decl[name] = (kind, line, order[0])

  used = []        # (name, line, local_scopes_snapshot)

  def walk_expr(e, local):
    t = type(e)
    if t is Ref:
      if e.name not in local:
        used.append((e.name, e.line))
    for c in _children(e):
      walk_expr(c, local)

  def walk_stmt(s, local):
    t = type(s)
    if t is Assign:
      walk_expr(s.lhs, local)
      walk_expr(s.rhs, local)
    elif t is Block:
      if s.name is not None:
        declare(s.name[0], "block", s.name[1])
      for x in s.stmts:
        walk_stmt(x, local)
    elif t is If:
      walk_expr(s.cond, local)
      walk_stmt(s.then, local)
      if s.els is not None:
        walk_stmt(s.els, local)
    elif t is For:
      dt, var, init, vl = s.init
      loc = local
      if dt is not None:
        walk_expr(init, local)
        loc = local | {var}
      else:
        if var not in local:
          used.append((var, vl))
        walk_expr(init, local)
      walk_expr(s.cond, loc)
      svar, op, sexpr, sl = s.step
      if svar not in loc:
        used.append((svar, sl))
      if sexpr is not None:
        walk_expr(sexpr, loc)
      walk_stmt(s.body, loc)

  for pd in m.ports:
    declare(pd.name, "port", pd.line)
    for a, b in pd.dtype.pdims + pd.udims:
      walk_expr(a, frozenset())
      if b is not None:
        walk_expr(b, frozenset())
    if pd.dtype.base == "named" and pd.dtype.name not in design.typedef_asts:
      out.append("module %s: port %r has unknown type %r (line %d)" % (mod, pd.name, pd.dtype.name, pd.line))
  marks = []       # (order at the point of use, names used) to detect use before declaration
  for it in m.items:
    t = type(it)
    n_before = len(used)
    if t is VarDecl:
      for a, b in it.dtype.pdims + it.udims:
        walk_expr(a, frozenset())
        if b is not None:
          walk_expr(b, frozenset())
      declare(it.name, "variable", it.line)
    elif t is ParamDecl:
      if it.dtype is not None:
        for a, b in it.dtype.pdims:
          walk_expr(a, frozenset()); walk_expr(b, frozenset())
      for a, b in it.udims:
        walk_expr(a, frozenset())
        if b is not None:
          walk_expr(b, frozenset())
      walk_expr(it.value, frozenset())
      declare(it.name, "parameter", it.line)
    elif t is Inst:
      declare(it.name, "instance", it.line)
      child = design.module_asts.get(it.module)
      if child is None:
        out.append("module %s: instance %r of undefined module %r (line %d)" % (mod, it.name, it.module, it.line))
      seen = set()
      cports = {p.name for p in child.ports} if child is not None else None
      for pname, e, cl in it.conns:
        if pname in seen:
          out.append("module %s: instance %r connects port %r twice (line %d)" % (mod, it.name, pname, cl))
        seen.add(pname)
        if cports is not None and pname not in cports:
          out.append("module %s: instance %r connects port %r which module %s does not have (line %d)"
                     % (mod, it.name, pname, it.module, cl))
        if e is not None:
          walk_expr(e, frozenset())
      if cports is not None:
        for p in child.ports:
          if p.name not in seen:
            out.append("module %s: instance %r leaves port %r of module %s unconnected (line %d)"
                       % (mod, it.name, p.name, it.module, it.line))
    elif t is ContAssign:
      walk_expr(it.lhs, frozenset())
      walk_expr(it.rhs, frozenset())
    elif t is Always:
      if it.clock is not None:
        used.append(it.clock)
      walk_stmt(it.body, frozenset())
    marks.append((order[0], n_before, len(used)))
  reported = set()
  for (ord_at, a, b) in marks:
    for name, line in used[a:b]:
      d = decl.get(name)
      if d is None:
        if (name, "u") not in reported:
          reported.add((name, "u"))
          out.append("module %s: identifier %r is not declared (line %d)" % (mod, name, line))
      elif d[0] in ("instance", "block"):
        out.append("module %s: %s name %r used as a variable (line %d)" % (mod, d[0], name, line))
      elif d[2] > ord_at and d[0] != "block":
        if (name, "b") not in reported:
          reported.add((name, "b"))
          out.append("module %s: identifier %r used (line %d) before its declaration (line %d)"
                     % (mod, name, line, d[1]))
  # member / select legality needs types: try to elaborate the module
  import re as _re
  def add_elab(msg):
    m = _re.search(r"identifier '(\w+)' is not declared", msg)
    if m and any(("identifier %r" % m.group(1)) in o or ("name %r used" % m.group(1)) in o for o in out):
      return
    if msg not in out:
      out.append(msg)
  try:
    design.modinfo(mod)
    an = analyze_module(design, mod)
    for pmsg in an.elab_problems:
      add_elab(pmsg)
  except (SVElabError, SVSyntaxError) as e:
    add_elab("module %s: %s" % (mod, e))


# ------------------------------------------------------------------------------------------
# per-module driver analysis
# ------------------------------------------------------------------------------------------

class Analysis:
  __slots__ = ("module", "problems", "undriven", "drivers", "reads", "elab_problems", "may")

  def __init__(s, module):
    s.module = module
    s.problems = []
    s.undriven = {}       # name -> [mask per element] (bits without any driver)
    s.drivers = {}        # name -> [(description, kind, [mask per element])]
    s.reads = {}          # name -> [mask per element]
    s.may = {}            # name -> [mask per element] read only through dynamic indices
    s.elab_problems = []


class _Walker:
  """computes the bits a reference may touch, with concrete unrolling of static for loops"""

  def __init__(self, design, modname):
    self.d = design
    self.mi = design.modinfo(modname)
    self.c = I.Compiler(design, None, False)
    self.scope = {}
    for (kind, name, direction, pt, signed, ud, line, value) in self.mi.decls:
      if name in self.scope:
        continue
      sym = I.Sym(name, kind, direction, pt, signed, ud, line)
      if kind == "param":
        I.init_param(design, sym, value, self.scope)
      self.scope[name] = sym
    self.static = set()       # loop variables currently bound to a concrete value
    self.fcache = {}
    self.forscopes = {}       # For ast -> (scope, loop symbol): one symbol per loop, so that the
                              # cached index closures keep reading the live loop variable

  def value(self, e, sc):
    """concrete value of an index expression, or None if it depends on a signal"""
    if not self.c.is_const(e, sc, self.static):
      return None
    f = self.fcache.get(e)
    if f is None:
      w, sg = self.c.size(e, sc)
      g = self.c.compile(e, sc, w, sg)
      f = self.fcache[e] = g
    return f()

  def bits(self, ref, sc):
    """-> (sym, {element index: mask}, dynamic?)"""
    c = self.c
    ri = c.resolve(ref, sc)
    sym = ri.sym
    dyn = False
    elems = [0]
    for (ie, l, r, size, stride) in ri.uidx:
      v = self.value(ie, sc)
      if v is None:
        dyn = True
        elems = [k + p * stride for k in elems for p in range(size)]
      else:
        pos = v - l if l <= r else l - v
        if pos < 0 or pos >= size:
          return sym, {}, dyn          # out of range: touches nothing
        elems = [k + pos * stride for k in elems]
    if ri.rem:
      n = 1
      for l, r in ri.rem:
        n *= abs(l - r) + 1
      elems = [k + j for k in elems for j in range(n)]
      full = (1 << sym.width) - 1
      return sym, {k: full for k in elems}, dyn
    offs = {ri.soff}
    for (ie, lo, hi, stride) in ri.pdyn:
      v = self.value(ie, sc)
      if v is None:
        dyn = True
        if len(offs) * (hi - lo + 1) > _OFFSET_SET_LIMIT:
          return sym, {k: (1 << sym.width) - 1 for k in elems}, True
        offs = {o + (i - lo) * stride for o in offs for i in range(lo, hi + 1)}
      else:
        if v < lo or v > hi:
          return sym, {}, dyn
        offs = {o + (v - lo) * stride for o in offs}
    m = (1 << ri.width) - 1
    part = ri.part
    mask = 0
    if part is None:
      for o in offs:
        mask |= m << o
    else:
      arr = ri.arr
      ew = arr.elem.width
      am = (1 << arr.width) - 1
      if part[0] == "range":
        hi = c.const_value(part[1], sc); lo = c.const_value(part[2], sc)
        ps = [(lo - arr.lo) * ew]
      else:
        nel = c.const_value(part[2], sc)
        v = self.value(part[1], sc)
        if v is None:
          dyn = True
          ps = None
        else:
          lo = v if part[0] == "plus" else v - nel + 1
          ps = [(lo - arr.lo) * ew]
      for o in offs:
        if ps is None:
          mask |= am << o
        else:
          for p in ps:
            fm = ((m << p) & am) if p >= 0 else (m >> -p)
            mask |= fm << o
    return sym, {k: mask for k in elems}, dyn


def analyze_module(design, modname):
  an = design._analysis.get(modname)
  if an is not None:
    return an
  an = Analysis(modname)
  design._analysis[modname] = an
  w = _Walker(design, modname)
  scope = w.scope
  drivers = {}      # name -> list of [desc, kind, {elem: mask}]
  reads = {}        # name -> {elem: mask}
  may = {}

  def add_read(e, sc):
    """record every bit read by expression e"""
    t = type(e)
    if t is Ref:
      try:
        sym, bm, dyn = w.bits(e, sc)
      except SVElabError as err:
        an.elab_problems.append("module %s: %s" % (modname, err))
        return
      if sym.kind != "param" and not sym.local:
        tgt = may if dyn else reads
        d = tgt.setdefault(sym.name, {})
        for k, m in bm.items():
          d[k] = d.get(k, 0) | m
    for c in _children(e):
      add_read(c, sc)

  def add_write(cur, ref, sc):
    try:
      sym, bm, dyn = w.bits(ref, sc)
    except SVElabError as err:
      an.elab_problems.append("module %s: %s" % (modname, err))
      return
    if sym.local:
      return
    d = cur.setdefault(sym.name, {})
    for k, m in bm.items():
      d[k] = d.get(k, 0) | m
    for s in ref.sels:
      for x in s[1:]:
        if not isinstance(x, str):
          add_read(x, sc)

  def walk(s, sc, cur):
    t = type(s)
    if t is Assign:
      add_write(cur, s.lhs, sc)
      add_read(s.rhs, sc)
    elif t is Block:
      for x in s.stmts:
        walk(x, sc, cur)
    elif t is If:
      add_read(s.cond, sc)
      walk(s.then, sc, cur)
      if s.els is not None:
        walk(s.els, sc, cur)
    elif t is For:
      walk_for(s, sc, cur)

  def walk_for(s, sc, cur):
    c = w.c
    dt, var, init, vl = s.init
    try:
      fs = w.forscopes.get(s)
      if fs is None:
        fs = w.forscopes[s] = c.for_scope(s, sc)
      sc2, sym = fs
      svar, op, sexpr, sl = s.step
      ssym = c.lookup(svar, sc2, sl)
    except SVElabError as err:
      an.elab_problems.append("module %s: %s" % (modname, err))
      return
    if not sym.local:
      add_write(cur, Ref(var, [], vl), sc2)
    if not ssym.local:
      add_write(cur, Ref(svar, [], sl), sc2)
    unroll = (ssym is sym and not sym.udims and c.is_const(init, sc2, w.static)
              and c.is_const(s.cond, sc2, w.static | {sym})
              and (sexpr is None or c.is_const(sexpr, sc2, w.static | {sym})))
    if unroll:
      try:
        f_init = c.compile_assign_rhs(init, sc2, sym.width)
        cond = c.compile_bool(s.cond, sc2)
        sref = Ref(svar, [], sl)
        if op == "=":
          f_step = c.compile_assign_rhs(sexpr, sc2, sym.width)
        else:
          rhs = Num(None, True, 1, False, sl) if sexpr is None else sexpr
          f_step = c.compile_assign_rhs(Binary("+" if op in ("++", "+=") else "-", sref, rhs, sl), sc2, sym.width)
        was_static = sym in w.static
        w.static.add(sym)
        sym.vals[0] = f_init()
        n = 0
        while cond():
          walk(s.body, sc2, cur)
          sym.vals[0] = f_step()
          n += 1
          if n > _UNROLL_LIMIT:
            an.elab_problems.append("module %s: for loop at line %d does not terminate within %d "
                                    "iterations" % (modname, s.line, _UNROLL_LIMIT))
            break
        if not was_static:
          w.static.discard(sym)
        return
      except SVElabError as err:
        an.elab_problems.append("module %s: %s" % (modname, err))
        w.static.discard(sym)
        return
    # header depends on a signal: conservative single pass with the loop variable unknown
    add_read(init, sc2)
    add_read(s.cond, sc2)
    if sexpr is not None:
      add_read(sexpr, sc2)
    walk(s.body, sc2, cur)

  mi = w.mi
  for it in mi.ast.items:
    t = type(it)
    if t is ContAssign:
      cur = {}
      add_write(cur, it.lhs, scope)
      add_read(it.rhs, scope)
      for name, bm in cur.items():
        drivers.setdefault(name, []).append(("assign at line %d" % it.line, "assign", bm))
    elif t is Always:
      cur = {}
      walk(it.body, scope, cur)
      kind = "comb" if it.kind == "comb" else "ff"
      if it.clock is not None:
        add_read(Ref(it.clock[0], [], it.clock[1]), scope)
      for name, bm in cur.items():
        drivers.setdefault(name, []).append(("always_%s at line %d" % (kind, it.line), kind, bm))
    elif t is Inst:
      if it.module not in design.module_asts:
        continue
      try:
        cmi = design.modinfo(it.module, it.line)
      except (SVElabError, SVSyntaxError) as err:
        an.elab_problems.append("module %s: instance %r: %s" % (modname, it.name, err))
        continue
      for pname, e, cl in it.conns:
        if e is None or pname not in cmi.port_names:
          continue
        direction = cmi.ports[cmi.port_names[pname]][1]
        if direction == "input":
          add_read(e, scope)
        else:
          if type(e) is not Ref:
            an.elab_problems.append("module %s: output port %r of instance %r is connected to an "
                                    "expression that is not assignable (line %d)" % (modname, pname, it.name, cl))
            continue
          cur = {}
          add_write(cur, e, scope)
          for name, bm in cur.items():
            drivers.setdefault(name, []).append(
              ("output %s of instance %s (line %d)" % (pname, it.name, cl), "inst", bm))

  # -- evaluate ------------------------------------------------------------------------------
  probs = an.problems
  for name, sym in scope.items():
    if sym.kind == "param":
      continue
    full = (1 << sym.width) - 1
    dl = drivers.get(name, [])
    rd = reads.get(name, {})
    my = may.get(name, {})
    is_in = sym.kind == "port" and sym.direction == "input"
    is_out = sym.kind == "port" and sym.direction == "output"
    kinds = {k for _, k, _ in dl}
    if is_in and dl:
      probs.append("module %s: input port %r is driven inside the module by %s"
                   % (modname, name, "; ".join(d for d, _, _ in dl)))
    if "comb" in kinds and "ff" in kinds:
      # IEEE 1800-2017 9.2.2.2.1 / 11.5.3: the restriction applies to the longest static prefix, so different
      # elements of an unpacked array may be written by different kinds of process; one element may not
      mixed = [k for k in range(sym.nelem)
               if any(kd == "comb" and bm.get(k, 0) for _, kd, bm in dl) and any(kd == "ff" and bm.get(k, 0) for _, kd, bm in dl)]
      if mixed:
        probs.append("module %s: variable %r is driven from both always_comb and always_ff (%s)"
                     % (modname, name, "; ".join(d for d, k, _ in dl if k in ("comb", "ff"))))
    und = None
    for k in range(sym.nelem):
      once = 0
      twice = 0
      for _, _, bm in dl:
        m = bm.get(k, 0)
        twice |= once & m
        once |= m
      el = "" if not sym.udims else "{element %d}" % k
      if twice and not is_in:
        who = "; ".join(d for d, _, bm in dl if bm.get(k, 0) & twice)
        probs.append("module %s: multiple drivers for %s%s%s: %s"
                     % (modname, name, el, _ranges(twice), who))
      zero = full & ~once
      if is_in:
        continue
      if zero:
        if und is None:
          und = [0] * sym.nelem
        und[k] = zero
        if is_out:
          probs.append("module %s: no driver for output port %s%s%s" % (modname, name, el, _ranges(zero)))
        else:
          r0 = zero & rd.get(k, 0)
          if r0:
            probs.append("module %s: no driver for %s%s%s, which is read" % (modname, name, el, _ranges(r0)))
          else:
            r1 = zero & my.get(k, 0)
            if r1:
              probs.append("module %s: no driver for %s%s%s, which may be read (dynamic index)"
                           % (modname, name, el, _ranges(r1)))
    if und is not None:
      an.undriven[name] = und
    an.drivers[name] = dl
  an.reads = reads
  an.may = may
  return an


def driver_problems(design, top):
  if top not in design.module_asts:
    raise SVElabError("top module %r is not defined" % top)
  out = []
  seen = set()
  order = []
  def visit(name):
    if name in seen:
      return
    seen.add(name)
    order.append(name)
    for it in design.module_asts[name].items:
      if type(it) is Inst and it.module in design.module_asts:
        visit(it.module)
  visit(top)
  for name in order:
    an = analyze_module(design, name)
    out.extend(an.elab_problems)
    out.extend(an.problems)
  return out
