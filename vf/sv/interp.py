"""Elaboration, IEEE 1800-2017 expression sizing, and a two-state event-driven interpreter for the
SystemVerilog subset emitted by pymtl3 (engine E2).  Pure Python, no pymtl3 import.

Expressions and statements are compiled once per instance into Python closures.

Sizing follows IEEE 1800-2017 11.6 (Table 11-21) and 11.8:
  * self-determined width/sign bottom-up (`Compiler.size`),
  * the width and signedness of the outermost context-determined expression are pushed down to
    the context-determined operands (`Compiler.compile(e, sc, W, S)`), where each *simple operand*
    (variable, select, literal, concatenation, cast, comparison, reduction ...) is extended to W:
    sign-extended iff the propagated type S is signed,
  * an expression is signed only if all its context-determined operands are signed,
  * an assignment is the context  max(L(lhs), L(rhs)) / sign(rhs).
"""
from collections import deque

from .lexer import SVElabError, SVSyntaxError, SVUnsupportedError
from . import parser as P
from .parser import (Num, Ref, Concat, Repl, Cast, Unary, Binary, Cond, Pattern, Block, If, For,
                     Assign, Null, ParamDecl, VarDecl, Inst, ContAssign, Always)

TRUSTED_BASE = [
  "two-state: every variable starts at 0; there is no X/Z.  Reading a bit without any driver "
  "yields 0 and is recorded in sim.undriven_reads.",
  "out-of-range dynamic index / part-select: reads yield 0 for the out-of-range bits, writes to "
  "out-of-range bits are dropped (IEEE 1800 11.5.1 says X / no effect); both are recorded in "
  "sim.oob_reads / sim.oob_writes.  A *constant* out-of-range select is an SVElabError.",
  "division / modulo by zero yields 0 (IEEE: X) and is recorded in sim.div_by_zero.",
  "index and part-select base expressions are self-determined; with strict_lrm_index_sign=False "
  "(default, tool-consensus reading, what upstream validated with Verilator) their value is taken "
  "as the unsigned magnitude of their self-determined width, so 1'(i) with a signed integer i==1 "
  "selects element 1; with strict_lrm_index_sign=True a signed index expression keeps its sign "
  "(IEEE 1800 6.24.1 'the signedness shall pass through unchanged'), so the same index is -1 and "
  "out of range.",
  "size cast N'(e): result width N, result signedness = signedness of e.  Default "
  "(cast_operand_self_determined=False): e is evaluated as if assigned to an N-bit variable, i.e. in a "
  "context of max(N, L(e)) bits (IEEE 1800-2017 6.24.1 'the value that a packed array type with a "
  "single [n-1:0] dimension would hold after being assigned the expression'; Verilator: "
  "23'(1'b1 + 1'b1) uses 23-bit math).  With cast_operand_self_determined=True e is evaluated at its "
  "self-determined width and then resized (the reading in DESIGN.md E2; some tools).  The two "
  "readings differ only for N > L(e) with an operator expression inside, e.g. 32'( a16 + b16 ).",
  "unsized decimal literals are 32-bit signed, unsized based literals 32-bit unsigned (width "
  "max(32, bits needed)); int/integer are 32-bit signed, 'int unsigned' unsigned; every logic/"
  "wire/reg/bit/struct is unsigned unless declared 'signed'; selects, concatenations, comparisons, "
  "reductions and logical operators are unsigned.",
  "operator **: right operand self-determined, result signed iff both operands signed "
  "(IEEE 1800 Table 11-4 for negative operands).",
  "a unary operator may be applied directly to another unary expression (~ -a); IEEE 1800 A.8.3 "
  "only has 'unary_operator primary' but every tool accepts it.",
  "a single select may follow a concatenation ({a,b}[1:0], IEEE 1800-2012 A.8.4) but never a "
  "parenthesised expression, a cast or a literal; nothing may follow a part-select.",
  "always_comb re-runs when a variable it reads is changed by another process; its own writes do "
  "not retrigger it (IEEE 1800 9.2.2.2.1 excludes variables written in the block, applied here "
  "per variable and per process).  Continuous assignments re-run on any change of what they read. "
  "All always_comb blocks and continuous assignments run once at time zero.",
  "one clock domain: tick() raises the top-level port 'clk' from 0 to 1, settles, fires every "
  "always_ff whose own clock operand saw a 0->1 transition (all right-hand sides are sampled "
  "before any non-blocking update is committed), commits, settles, lowers clk and settles.",
  "a port connection whose expression is a plain variable of the same shape is elaborated as an "
  "alias of the child's port (no separate process).",
  "settle() gives up with SVElabError('combinational loop') after 200 process evaluations per "
  "process plus 2000.",
  "`ifdef/`ifndef are evaluated with no macro defined (so `ifndef SYNTHESIS bodies are kept); "
  "`define is recorded only for `ifdef; macro substitution is not supported.",
  "unsized constants inside concatenations (illegal per IEEE 1800 11.4.12) are an SVElabError.",
]

# ------------------------------------------------------------------------------------------
# packed types
# ------------------------------------------------------------------------------------------

class TBit:
  """scalar 1-bit type (not indexable)"""
  __slots__ = ()
  width = 1
  def __repr__(s): return "bit"

TBIT = TBit()


class TArr:
  """packed array [hi:lo] of elem (elem = TBIT for a plain vector)"""
  __slots__ = ("hi", "lo", "elem", "width")
  def __init__(s, hi, lo, elem):
    s.hi = hi; s.lo = lo; s.elem = elem; s.width = (hi - lo + 1) * elem.width
  def __repr__(s): return "[%d:%d]%r" % (s.hi, s.lo, s.elem)


class TStruct:
  """packed struct; first field is most significant.  fields: name -> (offset, type)"""
  __slots__ = ("name", "fields", "order", "width")
  def __init__(s, name, order):
    s.name = name
    s.order = order                    # [(fname, type)]
    s.width = sum(t.width for _, t in order)
    s.fields = {}
    off = s.width
    for fname, t in order:
      off -= t.width
      s.fields[fname] = (off, t)
  def __repr__(s): return "struct %s" % s.name


TINT = TArr(31, 0, TBIT)


class Sym:
  """A variable / port / parameter of one instance.  `vals` (one int per unpacked element) and
  `readers` (ids of processes sensitive to it) may be shared with an aliased symbol."""
  __slots__ = ("name", "kind", "direction", "ptype", "width", "signed", "udims", "nelem", "vals",
               "readers", "line", "path", "undriven", "local")

  def __init__(s, name, kind, direction, ptype, signed, udims, line):
    s.name = name; s.kind = kind; s.direction = direction; s.ptype = ptype
    s.width = ptype.width; s.signed = signed; s.udims = udims; s.line = line
    n = 1
    for l, r in udims:
      n *= abs(l - r) + 1
    s.nelem = n
    s.vals = [0] * n
    s.readers = []
    s.path = name
    s.undriven = None        # None: every bit has a driver; else list of per-element masks
    s.local = False          # loop variable declared in a for header

  def dims(s):
    return tuple(abs(l - r) + 1 for l, r in s.udims)


class RefInfo:
  __slots__ = ("sym", "uidx", "rem", "soff", "pdyn", "part", "width", "signed", "arr", "ptype")


def _mask(w):
  return (1 << w) - 1


# ------------------------------------------------------------------------------------------
# module-level information shared by all instances of a module
# ------------------------------------------------------------------------------------------

class ModInfo:
  """Resolved declarations of one module definition (types resolved once)."""
  __slots__ = ("ast", "decls", "ports", "insts", "port_names")

  def __init__(s, ast):
    s.ast = ast
    s.decls = []        # [(kind, name, direction, ptype, signed, udims, line, value_ast)]
    s.ports = []        # [(name, direction, packed_width, unpacked_dims, struct_name or None)]
    s.insts = []        # [Inst ast]
    s.port_names = {}


class Design:
  """Result of parse_design()."""

  def __init__(self, ast, text):
    self.ast = ast
    self.text = text
    self.warnings = list(ast.warnings)
    self.typedef_asts = {}
    self.module_asts = {}
    self.dup_modules = []
    self.dup_typedefs = []
    for t in ast.typedefs:
      if t.name in self.typedef_asts:
        self.dup_typedefs.append((t.name, t.line))
      else:
        self.typedef_asts[t.name] = t
    for m in ast.modules:
      if m.name in self.module_asts:
        self.dup_modules.append((m.name, m.line))
      else:
        self.module_asts[m.name] = m
    self._types = {}
    self._modinfo = {}
    self._analysis = {}
    self._modules = None
    self.constmemo = {}

  # -- public views ------------------------------------------------------------------------

  @property
  def modules(self):
    if self._modules is None:
      self._modules = {name: Module(self, name) for name in self.module_asts}
    return self._modules

  def structural_problems(self):
    from . import drivers
    return drivers.structural_problems(self)

  def driver_problems(self, top):
    from . import drivers
    return drivers.driver_problems(self, top)

  def simulate(self, top, strict_lrm_index_sign=False, cast_operand_self_determined=False):
    """Elaborate the hierarchy below module `top` and return a Simulator.  The two switches select
    between readings of IEEE 1800 on which tools are known or suspected to differ (TRUSTED_BASE);
    a later check should report a disagreement only if it holds under every reading."""
    return Simulator(self, top, strict_lrm_index_sign, cast_operand_self_determined)

  # -- types -------------------------------------------------------------------------------

  def struct_type(self, name, line=0, _stack=()):
    t = self._types.get(name)
    if t is not None:
      return t
    ast = self.typedef_asts.get(name)
    if ast is None:
      raise SVElabError("unknown type %r" % name, line)
    if name in _stack:
      raise SVElabError("recursive struct type %r" % name, line)
    order = []
    seen = set()
    for dt, fname, fl in ast.fields:
      if fname in seen:
        raise SVElabError("duplicate member %r in struct %s" % (fname, name), fl)
      seen.add(fname)
      pt, signed = self.resolve_type(dt, {}, _stack + (name,))
      order.append((fname, pt))
    t = TStruct(name, order)
    self._types[name] = t
    return t

  def resolve_type(self, dt, scope, _stack=()):
    """DataType ast -> (packed type, signed)"""
    base = dt.base
    if base in ("int", "integer"):
      return TINT, (True if dt.signed is None else dt.signed)
    if base == "named":
      elem = self.struct_type(dt.name, dt.line, _stack)
      signed = False
    else:
      elem = TBIT
      signed = bool(dt.signed)
    for hi_e, lo_e in reversed(dt.pdims):
      hi = const_int(self, hi_e, scope)
      lo = const_int(self, lo_e, scope)
      if hi < lo:
        raise SVUnsupportedError("ascending packed range [%d:%d]" % (hi, lo), dt.line)
      elem = TArr(hi, lo, elem)
    return elem, signed

  def resolve_udims(self, udims, scope, line):
    out = []
    for a, b in udims:
      if b is None:
        n = const_int(self, a, scope)
        if n <= 0:
          raise SVElabError("unpacked dimension of size %d" % n, line)
        out.append((0, n - 1))
      else:
        out.append((const_int(self, a, scope), const_int(self, b, scope)))
    return out

  def modinfo(self, name, line=0):
    mi = self._modinfo.get(name)
    if mi is not None:
      return mi
    ast = self.module_asts.get(name)
    if ast is None:
      raise SVElabError("module %r is not defined" % name, line)
    mi = ModInfo(ast)
    # parameters may be used in dimensions: evaluate them in order in a throw-away scope
    scope = {}
    for pd in ast.ports:
      pt, signed = self.resolve_type(pd.dtype, scope)
      ud = self.resolve_udims(pd.udims, scope, pd.line)
      mi.decls.append(("port", pd.name, pd.direction, pt, signed, ud, pd.line, None))
      sname = pd.dtype.name if (pd.dtype.base == "named" and not pd.dtype.pdims) else None
      mi.ports.append((pd.name, pd.direction, pt.width, tuple(abs(l - r) + 1 for l, r in ud), sname))
      mi.port_names.setdefault(pd.name, len(mi.ports) - 1)
      if pd.name not in scope:
        scope[pd.name] = Sym(pd.name, "port", pd.direction, pt, signed, ud, pd.line)
    for it in ast.items:
      t = type(it)
      if t is VarDecl:
        pt, signed = self.resolve_type(it.dtype, scope)
        ud = self.resolve_udims(it.udims, scope, it.line)
        mi.decls.append(("var", it.name, None, pt, signed, ud, it.line, None))
        if it.name not in scope:
          scope[it.name] = Sym(it.name, "var", None, pt, signed, ud, it.line)
      elif t is ParamDecl:
        if it.dtype is None:
          if isinstance(it.value, Pattern):
            raise SVElabError("untyped localparam %r with an assignment pattern" % it.name, it.line)
          w, sg = Compiler(self, None, False).size(it.value, scope)
          pt, signed = (TArr(w - 1, 0, TBIT), sg)
        else:
          pt, signed = self.resolve_type(it.dtype, scope)
        ud = self.resolve_udims(it.udims, scope, it.line)
        mi.decls.append(("param", it.name, None, pt, signed, ud, it.line, it.value))
        if it.name not in scope:
          sym = Sym(it.name, "param", None, pt, signed, ud, it.line)
          init_param(self, sym, it.value, scope)
          scope[it.name] = sym
      elif t is Inst:
        mi.insts.append(it)
    self._modinfo[name] = mi
    return mi


class Module:
  """Public view of one module definition."""

  def __init__(self, design, name):
    self._d = design
    self.name = name
    ast = design.module_asts[name]
    self.text_span = ast.span
    self.line = ast.line
    self.instances = [(it.module, it.name) for it in ast.items if type(it) is Inst]
    self._ports = None

  @property
  def ports(self):
    if self._ports is None:
      self._ports = list(self._d.modinfo(self.name).ports)
    return self._ports

  @property
  def text(self):
    a, b = self.text_span
    return self._d.text[a:b]

  def __repr__(self):
    return "<Module %s>" % self.name


# ------------------------------------------------------------------------------------------
# constants
# ------------------------------------------------------------------------------------------

def const_int(design, e, scope):
  """value of a constant expression as a Python int (signed if the expression is signed)"""
  c = Compiler(design, None, False)
  if not c.is_const(e, scope):
    raise SVElabError("expression is not constant", e.line)
  w, sg = c.size(e, scope)
  v = c.compile(e, scope, w, sg)()
  if sg and v >> (w - 1):
    v -= 1 << w
  return v


def init_param(design, sym, value, scope):
  c = Compiler(design, None, False)
  if isinstance(value, Pattern):
    flat = []
    def walk(pat, dims):
      if not dims:
        raise SVElabError("assignment pattern nested deeper than the array of %r" % sym.name, pat.line)
      n = abs(dims[0][0] - dims[0][1]) + 1
      if len(pat.items) != n:
        raise SVElabError("assignment pattern for %r has %d items, dimension has %d"
                          % (sym.name, len(pat.items), n), pat.line)
      for it in pat.items:
        if isinstance(it, Pattern):
          walk(it, dims[1:])
        else:
          if len(dims) > 1:
            raise SVElabError("assignment pattern for %r is not nested deeply enough" % sym.name, pat.line)
          flat.append(it)
    if not sym.udims:
      raise SVUnsupportedError("assignment pattern for a packed parameter %r" % sym.name, value.line)
    walk(value, sym.udims)
    exprs = flat
  else:
    if sym.udims:
      raise SVElabError("array parameter %r needs an assignment pattern" % sym.name, value.line)
    exprs = [value]
  for k, e in enumerate(exprs):
    if not c.is_const(e, scope):
      raise SVElabError("value of parameter %r is not constant" % sym.name, e.line)
    sym.vals[k] = c.compile_assign_rhs(e, scope, sym.width)()


# ------------------------------------------------------------------------------------------
# the compiler: expressions / statements -> closures
# ------------------------------------------------------------------------------------------

_ARITH = frozenset(["+", "-", "*", "/", "%", "&", "|", "^", "~^", "^~"])
_SHIFT = frozenset(["<<", ">>", "<<<", ">>>", "**"])
_CMP = frozenset(["==", "!=", "<", "<=", ">", ">="])
_LOGIC = frozenset(["&&", "||"])
_MAX_SHIFT = 1 << 20
_FOR_LIMIT = 1 << 20


def _sdiv(a, b):
  q = abs(a) // abs(b)
  return -q if (a < 0) != (b < 0) else q


def _smod(a, b):
  r = abs(a) % abs(b)
  return -r if a < 0 else r


def _spow(a, b):
  """signed ** per IEEE 1800-2017 Table 11-4 (two-state: x -> 0)"""
  if b >= 0:
    return a ** b if b < 4096 or a in (0, 1, -1) else (0 if a == 0 else None)
  if a == 0:
    return 0            # x
  if a == 1:
    return 1
  if a == -1:
    return -1 if (b & 1) else 1
  return 0


class Compiler:

  def __init__(self, design, sim, strict, cast_self=False):
    self.d = design
    self.sim = sim
    self.strict = strict
    self.cast_self = cast_self
    self.nofast = False         # debugging aid: always use the general select closures
    self.reads = None           # set of Sym read by the process being compiled
    self.writes = None          # set of Sym written by the process being compiled
    self.constmemo = design.constmemo

  # -- lookup ------------------------------------------------------------------------------

  def lookup(self, name, sc, line):
    while sc is not None:
      s = sc.get(name)
      if s is not None:
        return s
      sc = sc.get("\0parent")
    raise SVElabError("identifier %r is not declared" % name, line)

  # -- constness ---------------------------------------------------------------------------

  def is_const(self, e, sc, static_syms=()):
    """True if e only depends on literals and parameters (and on the symbols in static_syms)."""
    t = type(e)
    if t is Num:
      return True
    if not static_syms:
      c = self.constmemo.get(e)
      if c is None:
        c = self.constmemo[e] = self._is_const(e, sc, ())
      return c
    return self._is_const(e, sc, static_syms)

  def _is_const(self, e, sc, static_syms):
    t = type(e)
    if t is Ref:
      try:
        sym = self.lookup(e.name, sc, e.line)
      except SVElabError:
        return False
      if sym.kind != "param" and sym not in static_syms:
        return False
      for s in e.sels:
        for x in s[1:]:
          if not isinstance(x, str) and not self.is_const(x, sc, static_syms):
            return False
      return True
    if t is Cast:
      return self.is_const(e.expr, sc, static_syms)
    if t is Unary:
      return self.is_const(e.expr, sc, static_syms)
    if t is Binary:
      return self.is_const(e.lhs, sc, static_syms) and self.is_const(e.rhs, sc, static_syms)
    if t is Cond:
      return (self.is_const(e.cond, sc, static_syms) and self.is_const(e.a, sc, static_syms)
              and self.is_const(e.b, sc, static_syms))
    if t is Concat or t is Repl:
      if t is Repl and not self.is_const(e.count, sc, static_syms):
        return False
      if e.sel is not None:
        for x in e.sel[1:]:
          if not self.is_const(x, sc, static_syms):
            return False
      return all(self.is_const(p, sc, static_syms) for p in e.parts)
    return False

  def const_value(self, e, sc):
    """Python int value of a constant self-determined expression (signed if signed), or None"""
    if not self.is_const(e, sc):
      return None
    w, sg = self.size(e, sc)
    v = self.compile(e, sc, w, sg)()
    if sg and v >> (w - 1):
      v -= 1 << w
    return v

  # -- reference resolution ----------------------------------------------------------------

  def resolve(self, e, sc):
    """Ref ast -> RefInfo (type walk; index expressions are not evaluated here)"""
    sym = self.lookup(e.name, sc, e.line)
    if sym.kind in ("inst", "block"):
      raise SVElabError("%r is not a variable" % e.name, e.line)
    ri = RefInfo()
    ri.sym = sym
    sels = e.sels
    nud = len(sym.udims)
    i = 0
    uidx = []
    if nud:
      # strides of the unpacked dimensions
      sizes = [abs(l - r) + 1 for l, r in sym.udims]
      strides = [1] * nud
      for k in range(nud - 2, -1, -1):
        strides[k] = strides[k + 1] * sizes[k + 1]
      while i < len(sels) and i < nud:
        s = sels[i]
        if s[0] != "idx":
          if s[0] == "mem":
            raise SVElabError("member access on unpacked array %r" % e.name, e.line)
          raise SVUnsupportedError("slice of unpacked array %r" % e.name, e.line)
        l, r = sym.udims[i]
        uidx.append((s[1], l, r, sizes[i], strides[i]))
        i += 1
    ri.uidx = uidx
    ri.rem = sym.udims[len(uidx):]
    t = sym.ptype
    soff = 0
    pdyn = []
    part = None
    arr = None
    if ri.rem and i < len(sels):   # pragma: no cover  (cannot happen: loop above consumes)
      raise SVElabError("bad select on array %r" % e.name, e.line)
    while i < len(sels):
      s = sels[i]
      k = s[0]
      if k == "mem":
        if type(t) is not TStruct:
          raise SVElabError("member access .%s on %r which is not a struct" % (s[1], e.name), e.line)
        f = t.fields.get(s[1])
        if f is None:
          raise SVElabError("struct %s has no member %r" % (t.name, s[1]), e.line)
        soff += f[0]
        t = f[1]
      elif k == "idx":
        if type(t) is not TArr:
          raise SVElabError("bit/element select on %r which has no packed dimension here" % e.name, e.line)
        pdyn.append((s[1], t.lo, t.hi, t.elem.width))
        t = t.elem
      else:
        if type(t) is not TArr:
          raise SVElabError("part-select on %r which has no packed dimension here" % e.name, e.line)
        arr = t
        part = s
        if i != len(sels) - 1:    # pragma: no cover  (parser guarantees)
          raise SVElabError("select after part-select", e.line)
      i += 1
    ri.soff = soff
    ri.pdyn = pdyn
    ri.part = part
    ri.arr = arr
    ri.ptype = t
    if part is None:
      ri.width = t.width
    else:
      ew = arr.elem.width
      if part[0] == "range":
        hi = self.const_value(part[1], sc)
        lo = self.const_value(part[2], sc)
        if hi is None or lo is None:
          raise SVElabError("bounds of part-select [h:l] on %r must be constant" % e.name, e.line)
        if hi < lo:
          raise SVElabError("part-select [%d:%d] on %r has reversed bounds" % (hi, lo, e.name), e.line)
        ri.width = (hi - lo + 1) * ew
      else:
        w = self.const_value(part[2], sc)
        if w is None or w <= 0:
          raise SVElabError("width of indexed part-select on %r must be a positive constant" % e.name, e.line)
        ri.width = w * ew
    ri.signed = bool(sym.signed and not e.sels)
    return ri

  # -- sizes -------------------------------------------------------------------------------

  def size(self, e, sc):
    """(self-determined width, signed) -- IEEE 1800-2017 Table 11-21 / 11.8.1"""
    sz = e._sz
    if sz is not None:
      return sz
    t = type(e)
    if t is Num:
      if e.width is not None:
        sz = (e.width, e.signed)
      else:
        need = e.value.bit_length() + (1 if e.signed else 0)
        if need > 32:
          self.d.warnings.append("line %d: unsized literal %d needs more than 32 bits" % (e.line, e.value))
        sz = (max(32, need), e.signed)
    elif t is Ref:
      ri = self.resolve(e, sc)
      if ri.rem:
        raise SVElabError("unpacked array %r used as an expression operand" % e.name, e.line)
      sz = (ri.width, ri.signed)
    elif t is Cast:
      sz = (e.width, self.size(e.expr, sc)[1])
    elif t is Concat or t is Repl:
      w = 0
      for p in e.parts:
        if type(p) is Num and p.width is None:
          raise SVElabError("unsized constant in concatenation", p.line)
        w += self.size(p, sc)[0]
      if t is Repl:
        n = self.const_value(e.count, sc)
        if n is None:
          raise SVElabError("replication count must be constant", e.line)
        if n <= 0:
          raise SVElabError("replication count %d" % n, e.line)
        w *= n
      if e.sel is not None:
        w = self._sel_on_value(e.sel, w, sc, e.line)[2]
      sz = (w, False)
    elif t is Unary:
      if e.op in ("+", "-", "~"):
        sz = self.size(e.expr, sc)
      else:
        self.size(e.expr, sc)
        sz = (1, False)
    elif t is Binary:
      op = e.op
      wl, sl = self.size(e.lhs, sc)
      wr, sr = self.size(e.rhs, sc)
      if op in _ARITH:
        sz = (max(wl, wr), sl and sr)
      elif op == "**":
        sz = (wl, sl and sr)
      elif op in _SHIFT:
        sz = (wl, sl)
      else:
        sz = (1, False)
    elif t is Cond:
      self.size(e.cond, sc)
      wa, sa = self.size(e.a, sc)
      wb, sb = self.size(e.b, sc)
      sz = (max(wa, wb), sa and sb)
    else:
      raise SVElabError("not an expression: %s" % t.__name__, e.line)
    e._sz = sz
    return sz

  def _sel_on_value(self, sel, w, sc, line):
    """select on a concatenation value of width w (numbered [w-1:0]):
    -> (kind, dynamic index fn or const low bit, width)"""
    k = sel[0]
    if k == "idx":
      return ("idx", sel[1], 1)
    if k == "range":
      hi = self.const_value(sel[1], sc)
      lo = self.const_value(sel[2], sc)
      if hi is None or lo is None:
        raise SVElabError("bounds of part-select must be constant", line)
      if hi < lo or lo < 0 or hi >= w:
        raise SVElabError("part-select [%d:%d] out of range of a %d-bit concatenation" % (hi, lo, w), line)
      return ("range", lo, hi - lo + 1)
    n = self.const_value(sel[2], sc)
    if n is None or n <= 0:
      raise SVElabError("width of indexed part-select must be a positive constant", line)
    return (k, sel[1], n)

  # -- index expressions -------------------------------------------------------------------

  def index_fn(self, e, sc):
    """-> (const_value or None, closure or None).  The value of an index expression: its
    self-determined value, as an unsigned magnitude (default) or, under strict_lrm_index_sign, as
    a signed number if the expression is signed."""
    w, sg = self.size(e, sc)
    f = self.compile(e, sc, w, sg)
    if sg and self.strict:
      sb = 1 << (w - 1)
      g = f
      f = lambda: (g() ^ sb) - sb
    if self.is_const(e, sc):
      return f(), None
    return None, f

  # -- reads -------------------------------------------------------------------------------

  def compile_read(self, e, sc):
    """closure returning the self-determined value of a Ref"""
    ri = self.resolve(e, sc)
    sym = ri.sym
    if ri.rem:
      raise SVElabError("unpacked array %r used as an expression operand" % e.name, e.line)
    if self.reads is not None and sym.kind != "param" and not sym.local:
      self.reads.add(sym)
    vals = sym.vals
    width = ri.width
    m = _mask(width)
    sim = self.sim
    name = sym.path

    # unpacked element
    k0 = 0
    udyn = []
    for (ie, l, r, size, stride) in ri.uidx:
      c, f = self.index_fn(ie, sc)
      if f is None:
        pos = c - l if l <= r else l - c
        if pos < 0 or pos >= size:
          raise SVElabError("constant index %d out of range [%d:%d] of %r" % (c, l, r, e.name), e.line)
        k0 += pos * stride
      else:
        udyn.append((f, l, l <= r, size, stride))
    # packed steps
    soff = ri.soff
    pdyn = []
    for (ie, lo, hi, stride) in ri.pdyn:
      c, f = self.index_fn(ie, sc)
      if f is None:
        if c < lo or c > hi:
          raise SVElabError("constant index %d out of range [%d:%d] of %r" % (c, hi, lo, e.name), e.line)
        soff += (c - lo) * stride
      else:
        pdyn.append((f, lo, hi, stride))
    part = ri.part
    pfn = None
    if part is not None:
      arr = ri.arr
      ew = arr.elem.width
      if part[0] == "range":
        hi = self.const_value(part[1], sc)
        lo = self.const_value(part[2], sc)
        if lo < arr.lo or hi > arr.hi:
          raise SVElabError("part-select [%d:%d] out of range [%d:%d] of %r"
                            % (hi, lo, arr.hi, arr.lo, e.name), e.line)
        soff += (lo - arr.lo) * ew
      else:
        nel = self.const_value(part[2], sc)
        c, f = self.index_fn(part[1], sc)
        if f is None:
          lo = c if part[0] == "plus" else c - nel + 1
          if lo < arr.lo or lo + nel - 1 > arr.hi:
            raise SVElabError("indexed part-select [%d %s %d] out of range [%d:%d] of %r"
                              % (c, "+:" if part[0] == "plus" else "-:", nel, arr.hi, arr.lo, e.name), e.line)
          soff += (lo - arr.lo) * ew
        else:
          # dynamic base: position of the low bit inside the array = (base[-nel+1] - arr.lo)*ew
          adj = arr.lo if part[0] == "plus" else arr.lo + nel - 1
          pfn = (f, adj, ew, arr.width)

    und = sym.undriven
    if sym.kind == "param" and not udyn and not pdyn and pfn is None:
      v = (vals[k0] >> soff) & m
      return lambda: v

    if not udyn and not pdyn and pfn is None and not self.nofast:
      if soff == 0 and width == sym.width:
        rd = lambda: vals[k0]
      else:
        rd = lambda: (vals[k0] >> soff) & m
      if und is not None and sim is not None and (und[k0] >> soff) & m:
        ur = sim.undriven_reads
        inner = rd
        def rd():
          ur.add(name)
          return inner()
      return rd

    oob = sim.oob_reads if sim is not None else set()
    if len(udyn) == 1 and not pdyn and pfn is None and udyn[0][4] == 1 and k0 == 0 \
       and soff == 0 and width == sym.width and und is None and not self.nofast:
      f, l, asc, size, stride = udyn[0]
      if asc:
        def rd():
          pos = f() - l
          if 0 <= pos < size:
            return vals[pos]
          oob.add(name)
          return 0
      else:
        def rd():
          pos = l - f()
          if 0 <= pos < size:
            return vals[pos]
          oob.add(name)
          return 0
      return rd

    if not udyn and len(pdyn) == 1 and pfn is None and und is None and not self.nofast:
      f, lo, hi, stride = pdyn[0]
      base = soff - lo * stride
      def rd():
        i = f()
        if lo <= i <= hi:
          return (vals[k0] >> (base + i * stride)) & m
        oob.add(name)
        return 0
      return rd

    ur = sim.undriven_reads if (und is not None and sim is not None) else None
    def rd():
      k = k0
      for f, l, asc, size, stride in udyn:
        pos = f() - l if asc else l - f()
        if pos < 0 or pos >= size:
          oob.add(name)
          return 0
        k += pos * stride
      off = soff
      for f, lo, hi, stride in pdyn:
        i = f()
        if i < lo or i > hi:
          oob.add(name)
          return 0
        off += (i - lo) * stride
      if ur is not None:
        ur.add(name)
      if pfn is not None:
        f, adj, ew, aw = pfn
        p = (f() - adj) * ew
        a = (vals[k] >> off) & ((1 << aw) - 1)
        if p < 0 or p + width > aw:
          oob.add(name)
          if p < 0:
            return (a << -p) & m
        return (a >> p) & m
      return (vals[k] >> off) & m
    return rd

  # -- writes ------------------------------------------------------------------------------

  def compile_write(self, e, sc, nonblocking=False):
    """-> st(v): store the (already width-masked) value v into the Ref e"""
    ri = self.resolve(e, sc)
    sym = ri.sym
    if sym.kind == "param":
      raise SVElabError("assignment to parameter %r" % e.name, e.line)
    if ri.rem:
      raise SVElabError("assignment to a whole unpacked array %r" % e.name, e.line)
    if self.writes is not None:
      self.writes.add(sym)
    vals = sym.vals
    readers = sym.readers
    width = ri.width
    m = _mask(width)
    sim = self.sim
    name = sym.path
    inq = sim.inq
    qappend = sim.queue.append
    nba = sim.nba

    def notify():
      for r in readers:
        if not inq[r]:
          inq[r] = 1
          qappend(r)

    k0 = 0
    udyn = []
    for (ie, l, r, size, stride) in ri.uidx:
      c, f = self.index_fn(ie, sc)
      if f is None:
        pos = c - l if l <= r else l - c
        if pos < 0 or pos >= size:
          raise SVElabError("constant index %d out of range [%d:%d] of %r" % (c, l, r, e.name), e.line)
        k0 += pos * stride
      else:
        udyn.append((f, l, l <= r, size, stride))
    soff = ri.soff
    pdyn = []
    for (ie, lo, hi, stride) in ri.pdyn:
      c, f = self.index_fn(ie, sc)
      if f is None:
        if c < lo or c > hi:
          raise SVElabError("constant index %d out of range [%d:%d] of %r" % (c, hi, lo, e.name), e.line)
        soff += (c - lo) * stride
      else:
        pdyn.append((f, lo, hi, stride))
    part = ri.part
    pfn = None
    if part is not None:
      arr = ri.arr
      ew = arr.elem.width
      if part[0] == "range":
        hi = self.const_value(part[1], sc)
        lo = self.const_value(part[2], sc)
        if lo < arr.lo or hi > arr.hi:
          raise SVElabError("part-select [%d:%d] out of range [%d:%d] of %r"
                            % (hi, lo, arr.hi, arr.lo, e.name), e.line)
        soff += (lo - arr.lo) * ew
      else:
        nel = self.const_value(part[2], sc)
        c, f = self.index_fn(part[1], sc)
        if f is None:
          lo = c if part[0] == "plus" else c - nel + 1
          if lo < arr.lo or lo + nel - 1 > arr.hi:
            raise SVElabError("indexed part-select [%d %s %d] out of range [%d:%d] of %r"
                              % (c, "+:" if part[0] == "plus" else "-:", nel, arr.hi, arr.lo, e.name), e.line)
          soff += (lo - arr.lo) * ew
        else:
          adj = arr.lo if part[0] == "plus" else arr.lo + nel - 1
          pfn = (f, adj, ew, arr.width)

    static = not udyn and not pdyn and pfn is None and not self.nofast
    whole = static and soff == 0 and width == sym.width

    def put(k, msk, vs):
      old = vals[k]
      new = (old & ~msk) | vs
      if new != old:
        vals[k] = new
        for r in readers:
          if not inq[r]:
            inq[r] = 1
            qappend(r)

    if static:
      msk = m << soff
      if nonblocking:
        if whole:
          def st(v):
            nba.append((put, k0, msk, v))
        else:
          def st(v):
            nba.append((put, k0, msk, v << soff))
        return st
      if whole:
        if sym.local:
          def st(v):
            vals[k0] = v
        else:
          def st(v):
            if vals[k0] != v:
              vals[k0] = v
              for r in readers:
                if not inq[r]:
                  inq[r] = 1
                  qappend(r)
      else:
        nm = ~msk
        def st(v):
          old = vals[k0]
          new = (old & nm) | (v << soff)
          if new != old:
            vals[k0] = new
            for r in readers:
              if not inq[r]:
                inq[r] = 1
                qappend(r)
      return st

    oob = sim.oob_writes
    def locate(v):
      k = k0
      for f, l, asc, size, stride in udyn:
        pos = f() - l if asc else l - f()
        if pos < 0 or pos >= size:
          oob.add(name)
          return None
        k += pos * stride
      off = soff
      for f, lo, hi, stride in pdyn:
        i = f()
        if i < lo or i > hi:
          oob.add(name)
          return None
        off += (i - lo) * stride
      if pfn is not None:
        f, adj, ew, aw = pfn
        p = (f() - adj) * ew
        if p < 0 or p + width > aw:
          oob.add(name)
          am = (1 << aw) - 1
          if p >= 0:
            fm = (m << p) & am
            return (k, fm << off, ((v << p) & fm) << off)
          fm = m >> -p
          return (k, fm << off, ((v >> -p) & fm) << off)
        off += p
      return (k, m << off, v << off)

    if nonblocking:
      def st(v):
        r = locate(v)
        if r is not None:
          nba.append((put,) + r)
    else:
      def st(v):
        r = locate(v)
        if r is not None:
          put(r[0], r[1], r[2])
    return st

  # -- expressions -------------------------------------------------------------------------

  def compile_self(self, e, sc):
    """-> (closure at the self-determined size, width, signed)"""
    w, sg = self.size(e, sc)
    return self.compile(e, sc, w, sg), w, sg

  def compile_bool(self, e, sc):
    f, w, sg = self.compile_self(e, sc)
    return f

  def compile_assign_rhs(self, e, sc, lw):
    """closure giving the value of e assigned to a target of lw bits (IEEE 1800 11.6 / 10.7:
    context width max(lw, L(e)), signedness of e, then truncation)"""
    w, sg = self.size(e, sc)
    W = lw if lw > w else w
    f = self.compile(e, sc, W, sg)
    if W > lw:
      m = _mask(lw)
      return lambda: f() & m
    return f

  def compile(self, e, sc, W, S):
    """closure giving the value of e in a context of width W and signedness S (int in [0,2^W))"""
    if type(e) is not Num and self.sim is not None:
      if self.is_const(e, sc):
        save = self.reads
        self.reads = None
        v = self._compile(e, sc, W, S)()
        self.reads = save
        return lambda: v
    return self._compile(e, sc, W, S)

  def _compile(self, e, sc, W, S):
    t = type(e)
    M = _mask(W)
    if t is Binary:
      op = e.op
      if op in _ARITH:
        a = self.compile(e.lhs, sc, W, S)
        b = self.compile(e.rhs, sc, W, S)
        if op == "+":
          return lambda: (a() + b()) & M
        if op == "-":
          return lambda: (a() - b()) & M
        if op == "*":
          return lambda: (a() * b()) & M
        if op == "&":
          return lambda: a() & b()
        if op == "|":
          return lambda: a() | b()
        if op == "^":
          return lambda: a() ^ b()
        if op == "~^" or op == "^~":
          return lambda: (a() ^ b()) ^ M
        dz = self.sim.div_by_zero if self.sim is not None else set()
        line = e.line
        if S:
          sb = 1 << (W - 1)
          fn = _sdiv if op == "/" else _smod
          def f():
            y = b()
            if y == 0:
              dz.add(line)
              return 0
            return fn((a() ^ sb) - sb, (y ^ sb) - sb) & M
          return f
        if op == "/":
          def f():
            y = b()
            if y == 0:
              dz.add(line)
              return 0
            return a() // y
        else:
          def f():
            y = b()
            if y == 0:
              dz.add(line)
              return 0
            return a() % y
        return f
      if op in _SHIFT:
        a = self.compile(e.lhs, sc, W, S)
        b, wb, sgb = self.compile_self(e.rhs, sc)
        if op == "<<" or op == "<<<":
          def f():
            n = b()
            if n >= W:
              return 0
            return (a() << n) & M
          return f
        if op == ">>" or (op == ">>>" and not S):
          def f():
            n = b()
            if n >= W:
              return 0
            return a() >> n
          return f
        if op == ">>>":
          sb = 1 << (W - 1)
          def f():
            n = b()
            if n >= W:
              n = W
            return (((a() ^ sb) - sb) >> n) & M
          return f
        # **
        if S:
          sb = 1 << (W - 1)
          sbb = 1 << (wb - 1)
          def f():
            x = (a() ^ sb) - sb
            y = b()
            if sgb:
              y = (y ^ sbb) - sbb
            r = _spow(x, y)
            if r is None:
              r = pow(x, y, 1 << W)
            return r & M
          return f
        mod = 1 << W
        if sgb:
          sbb = 1 << (wb - 1)
          def f():
            y = b()
            y = (y ^ sbb) - sbb
            if y < 0:
              x = a()
              return 1 if x == 1 else 0
            return pow(a(), y, mod)
          return f
        return lambda: pow(a(), b(), mod)
      # comparisons and logical operators are self-determined 1-bit unsigned operands
      return self._compile_simple(e, sc)
    if t is Unary:
      op = e.op
      if op == "-":
        a = self.compile(e.expr, sc, W, S)
        return lambda: (-a()) & M
      if op == "~":
        a = self.compile(e.expr, sc, W, S)
        return lambda: a() ^ M
      if op == "+":
        return self.compile(e.expr, sc, W, S)
      return self._compile_simple(e, sc)
    if t is Cond:
      c = self.compile_bool(e.cond, sc)
      a = self.compile(e.a, sc, W, S)
      b = self.compile(e.b, sc, W, S)
      return lambda: a() if c() else b()
    if t is Num:
      if e.unbased:
        v = M if e.value else 0
        return lambda: v
      w, sg = self.size(e, sc)
      v = e.value & _mask(w)
      if W > w and S and (v >> (w - 1)):
        v |= M ^ _mask(w)
      v &= M
      return lambda: v
    # simple operands: Ref, Cast, Concat, Repl
    f, w, sg = self._compile_operand(e, sc)
    if W > w and S and sg:
      sb = 1 << (w - 1)
      return lambda: ((f() ^ sb) - sb) & M
    if W < w:     # pragma: no cover  (a context is never narrower than an operand)
      return lambda: f() & M
    return f

  def _compile_simple(self, e, sc):
    """comparison / logical / reduction / ! : a 1-bit unsigned simple operand"""
    t = type(e)
    if t is Binary:
      op = e.op
      if op in _LOGIC:
        a = self.compile_bool(e.lhs, sc)
        b = self.compile_bool(e.rhs, sc)
        if op == "&&":
          return lambda: 1 if (a() and b()) else 0
        return lambda: 1 if (a() or b()) else 0
      wl, sl = self.size(e.lhs, sc)
      wr, sr = self.size(e.rhs, sc)
      Wc = wl if wl > wr else wr
      Sc = sl and sr
      a = self.compile(e.lhs, sc, Wc, Sc)
      b = self.compile(e.rhs, sc, Wc, Sc)
      if op == "==":
        return lambda: 1 if a() == b() else 0
      if op == "!=":
        return lambda: 1 if a() != b() else 0
      if Sc:
        sb = 1 << (Wc - 1)
        a0, b0 = a, b
        a = lambda: a0() ^ sb       # order-preserving map of two's complement to unsigned
        b = lambda: b0() ^ sb
      if op == "<":
        return lambda: 1 if a() < b() else 0
      if op == "<=":
        return lambda: 1 if a() <= b() else 0
      if op == ">":
        return lambda: 1 if a() > b() else 0
      if op == ">=":
        return lambda: 1 if a() >= b() else 0
      raise SVElabError("operator %r" % op, e.line)     # pragma: no cover
    # Unary
    op = e.op
    a, w, sg = self.compile_self(e.expr, sc)
    if op == "!":
      return lambda: 0 if a() else 1
    full = _mask(w)
    if op == "&":
      return lambda: 1 if a() == full else 0
    if op == "~&":
      return lambda: 0 if a() == full else 1
    if op == "|":
      return lambda: 1 if a() else 0
    if op == "~|":
      return lambda: 0 if a() else 1
    if op == "^":
      return lambda: a().bit_count() & 1
    if op == "~^" or op == "^~":
      return lambda: (a().bit_count() & 1) ^ 1
    raise SVElabError("operator %r" % op, e.line)     # pragma: no cover

  def _compile_operand(self, e, sc):
    """-> (closure at own width, width, signed) for Ref / Cast / Concat / Repl"""
    t = type(e)
    w, sg = self.size(e, sc)
    if t is Ref:
      return self.compile_read(e, sc), w, sg
    if t is Cast:
      N = e.width
      w0, s0 = self.size(e.expr, sc)
      if self.cast_self:
        # reading "operand self-determined": evaluate at its own width, then resize
        f = self.compile(e.expr, sc, w0, s0)
        if N > w0 and s0:
          sb = 1 << (w0 - 1)
          m = _mask(N)
          return (lambda: ((f() ^ sb) - sb) & m), w, sg
      else:
        # IEEE 1800-2017 6.24.1: "the value that a packed array type with a single [n-1:0]
        # dimension would hold after being assigned the expression": an assignment-like context
        # of max(N, L(e)) bits with the signedness of e
        Wc = N if N > w0 else w0
        f = self.compile(e.expr, sc, Wc, s0)
      if N < w0:
        m = _mask(N)
        return (lambda: f() & m), w, sg
      return f, w, sg
    if t is Concat or t is Repl:
      parts = []
      tot = 0
      for p in e.parts:
        f, pw, ps = self.compile_self(p, sc)
        parts.append((f, pw))
        tot += pw
      if len(parts) == 1:
        cat = parts[0][0]
      elif len(parts) == 2:
        f0, f1, w1 = parts[0][0], parts[1][0], parts[1][1]
        cat = lambda: (f0() << w1) | f1()
      else:
        ps = tuple(parts)
        def cat():
          v = 0
          for f, pw in ps:
            v = (v << pw) | f()
          return v
      if t is Repl:
        n = self.const_value(e.count, sc)
        inner = cat
        iw = tot
        # multiplier with a one every iw bits
        mul = 0
        for i in range(n):
          mul |= 1 << (i * iw)
        cat = lambda: inner() * mul
        tot *= n
      if e.sel is not None:
        kind, x, sw = self._sel_on_value(e.sel, tot, sc, e.line)
        m = _mask(sw)
        oob = self.sim.oob_reads if self.sim is not None else set()
        inner2 = cat
        if kind == "range":
          lo = x
          cat = lambda: (inner2() >> lo) & m
        else:
          c, f = self.index_fn(x, sc)
          if f is None:
            lo = c if kind != "minus" else c - sw + 1
            if lo < 0 or lo + sw > tot:
              raise SVElabError("select out of range of a %d-bit concatenation" % tot, e.line)
            cat = lambda: (inner2() >> lo) & m
          else:
            adj = 0 if kind != "minus" else sw - 1
            def cat():
              p = f() - adj
              if p < 0 or p + sw > tot:
                oob.add("<concatenation>")
                if p < 0:
                  return (inner2() << -p) & m
              return (inner2() >> p) & m
      return cat, w, sg
    if t is Num:
      v = e.value & _mask(w)
      return (lambda: v), w, sg
    # any other expression used where a simple operand is expected: compile self-determined
    return self.compile(e, sc, w, sg), w, sg

  # -- statements --------------------------------------------------------------------------

  def compile_stmt(self, s, sc, ff):
    t = type(s)
    if t is Assign:
      nb = not s.blocking
      ri_w = self.resolve(s.lhs, sc).width
      rhs = self.compile_assign_rhs(s.rhs, sc, ri_w)
      st = self.compile_write(s.lhs, sc, nonblocking=nb)
      return lambda: st(rhs())
    if t is Block:
      stmts = [self.compile_stmt(x, sc, ff) for x in s.stmts if type(x) is not Null]
      if len(stmts) == 1:
        return stmts[0]
      if len(stmts) == 2:
        s0, s1 = stmts
        def run2():
          s0(); s1()
        return run2
      stmts = tuple(stmts)
      def run():
        for x in stmts:
          x()
      return run
    if t is If:
      c = self.compile_bool(s.cond, sc)
      a = self.compile_stmt(s.then, sc, ff)
      if s.els is None:
        def run_if():
          if c():
            a()
        return run_if
      b = self.compile_stmt(s.els, sc, ff)
      def run_ifelse():
        if c():
          a()
        else:
          b()
      return run_ifelse
    if t is For:
      return self.compile_for(s, sc, ff)
    if t is Null:
      return lambda: None
    raise SVElabError("not a statement: %s" % t.__name__, s.line)

  def for_scope(self, s, sc):
    """scope and loop-variable symbol of a for statement"""
    dt, var, init, vl = s.init
    if dt is not None:
      pt, signed = self.d.resolve_type(dt, sc)
      sym = Sym(var, "loopvar", None, pt, signed, [], vl)
      sym.local = True
      sc2 = {"\0parent": sc, var: sym}
    else:
      sym = self.lookup(var, sc, vl)
      sc2 = sc
    return sc2, sym

  def compile_for(self, s, sc, ff):
    dt, var, init, vl = s.init
    sc2, sym = self.for_scope(s, sc)
    svar, op, sexpr, sl = s.step
    iref = Ref(var, [], vl)
    sref = Ref(svar, [], sl)
    st_i = self.compile_write(iref, sc2)
    f_init = self.compile_assign_rhs(init, sc2, sym.width)
    cond = self.compile_bool(s.cond, sc2)
    ssym = self.lookup(svar, sc2, sl)
    st_s = self.compile_write(sref, sc2)
    if op == "=":
      f_step = self.compile_assign_rhs(sexpr, sc2, ssym.width)
    else:
      if op in ("++", "--"):
        rhs = Num(None, True, 1, False, sl)
        bop = "+" if op == "++" else "-"
      else:
        rhs = sexpr
        bop = op[0]
      # a op= b  is  a = a op b  (IEEE 1800 11.4.1)
      f_step = self.compile_assign_rhs(Binary(bop, sref, rhs, sl), sc2, ssym.width)
    body = self.compile_stmt(s.body, sc2, ff)
    line = s.line
    def run_for():
      st_i(f_init())
      n = 0
      while cond():
        body()
        st_s(f_step())
        n += 1
        if n > _FOR_LIMIT:
          raise SVElabError("for loop does not terminate", line)
    return run_for


# ------------------------------------------------------------------------------------------
# elaborated hierarchy
# ------------------------------------------------------------------------------------------

class Instance:
  __slots__ = ("path", "modname", "info", "scope", "children", "analysis")

  def __init__(s, path, modname, info):
    s.path = path; s.modname = modname; s.info = info
    s.scope = {}
    s.children = {}


class Proc:
  __slots__ = ("pid", "kind", "run", "where", "clock", "prev")

  def __init__(s, pid, kind, run, where):
    s.pid = pid; s.kind = kind; s.run = run; s.where = where; s.clock = None; s.prev = 0


class Simulator:
  """Two-state simulation of the hierarchy rooted at module `top`."""

  def __init__(self, design, top, strict_lrm_index_sign=False, cast_operand_self_determined=False):
    from . import drivers
    self.design = design
    self.top_name = top
    self.strict = strict_lrm_index_sign
    self.undriven_reads = set()
    self.oob_reads = set()
    self.oob_writes = set()
    self.div_by_zero = set()
    self.queue = deque()
    self.inq = []
    self.nba = []
    self.procs = []
    self.ffprocs = []
    self._runs = []
    self._reads = []
    self._last = []
    self._selfclear = []
    self._drivers = drivers
    self.n_aliased = 0
    self.comp = Compiler(design, self, strict_lrm_index_sign, cast_operand_self_determined)
    if top not in design.module_asts:
      raise SVElabError("top module %r is not defined" % top)
    self._pending = []
    self.top = self._elab(top, "", None, None, (top,))
    for args in self._pending:
      self._connect(*args)
    self._pending = None
    self._compile_instance(self.top)
    self.inputs = {}
    self.outputs = {}
    for (name, direction, pw, ud, sname) in self.top.info.ports:
      (self.inputs if direction == "input" else self.outputs)[name] = (pw, ud)
    self._clk = self.top.scope.get("clk")
    self._limit = 200 * len(self.procs) + 2000
    self.cycles = 0

  # -- elaboration -------------------------------------------------------------------------

  def _elab(self, modname, path, parent, inst_ast, stack):
    d = self.design
    info = d.modinfo(modname, inst_ast.line if inst_ast is not None else 0)
    inst = Instance(path, modname, info)
    an = self._drivers.analyze_module(d, modname)
    inst.analysis = an
    scope = inst.scope
    conns = {}
    if inst_ast is not None:
      seen = set()
      for pname, e, cl in inst_ast.conns:
        if pname in seen:
          raise SVElabError("port %r connected twice on instance %r" % (pname, inst_ast.name), cl)
        seen.add(pname)
        if pname not in info.port_names:
          raise SVElabError("module %r has no port %r (instance %r)" % (modname, pname, inst_ast.name), cl)
        conns[pname] = (e, cl)
    prefix = path + "." if path else ""
    pending = []
    for (kind, name, direction, pt, signed, ud, line, value) in info.decls:
      if name in scope:
        continue       # duplicate declaration: reported by structural_problems; first one wins
      sym = Sym(name, kind, direction, pt, signed, ud, line)
      sym.path = prefix + name
      scope[name] = sym
      if kind == "param":
        init_param(d, sym, value, scope)
        continue
      und = an.undriven.get(name)
      if kind == "port":
        if parent is None:
          if direction == "input":
            und = None
        else:
          c = conns.get(name)
          if c is None or c[0] is None:
            # unconnected port: an input stays 0 (and counts as undriven)
            if direction == "input":
              und = [_mask(sym.width)] * sym.nelem
          else:
            e, cl = c
            psym = self._alias_target(e, parent, sym)
            if psym is not None:
              sym.vals = psym.vals
              sym.readers = psym.readers
              self.n_aliased += 1
              if direction == "input":
                und = psym.undriven
              else:
                psym.undriven = und
            else:
              pending.append((sym, e, cl))
              if direction == "input":
                und = None
      sym.undriven = und
    # child instances
    for ia in info.insts:
      if ia.name in inst.children:
        continue
      if ia.module in stack:
        raise SVElabError("recursive instantiation of module %r" % ia.module, ia.line)
      if ia.module not in d.module_asts:
        raise SVElabError("module %r is not defined (instance %r)" % (ia.module, ia.name), ia.line)
      child = self._elab(ia.module, prefix + ia.name, inst, ia, stack + (ia.module,))
      inst.children[ia.name] = child
    # connection processes are compiled once the whole hierarchy exists
    for sym, e, cl in pending:
      self._pending.append((parent, inst, sym, e, cl))
    return inst

  def _alias_target(self, e, parent, csym):
    """parent symbol to alias the child's port with, or None"""
    if type(e) is not Ref or e.sels:
      return None
    psym = parent.scope.get(e.name)
    if psym is None:
      raise SVElabError("identifier %r is not declared" % e.name, e.line)
    if psym.kind == "param":
      return None
    if psym.width != csym.width or psym.dims() != csym.dims():
      return None
    if psym.signed != csym.signed and csym.direction == "output":
      pass
    return psym

  def _array_slice(self, e, inst):
    """(sym, start, count) of an array-valued reference with constant indices"""
    comp = self.comp
    ri = comp.resolve(e, inst.scope)
    if e.sels[len(ri.uidx):]:
      raise SVElabError("bad array reference %r" % e.name, e.line)
    k0 = 0
    for (ie, l, r, size, stride) in ri.uidx:
      c = comp.const_value(ie, inst.scope)
      if c is None:
        raise SVUnsupportedError("dynamic index in an array-valued port connection", e.line)
      pos = c - l if l <= r else l - c
      if pos < 0 or pos >= size:
        raise SVElabError("constant index %d out of range of %r" % (c, e.name), e.line)
      k0 += pos * stride
    n = 1
    for l, r in ri.rem:
      n *= abs(l - r) + 1
    return ri.sym, k0, n, tuple(abs(l - r) + 1 for l, r in ri.rem)

  def _connect(self, parent, child, csym, e, cl):
    """a port connection that is not an alias becomes a continuous-assignment process"""
    comp = self.comp
    where = "%s: port connection .%s (line %d)" % (child.path, csym.name, cl)
    pid = self._new_proc("conn", where)
    comp.reads = set()
    comp.writes = set()
    psc = parent.scope
    if csym.udims:
      # array port: the connection must be an array(-slice) of the same shape
      if type(e) is not Ref:
        raise SVElabError("array port %r connected to a non-array expression" % csym.name, cl)
      psym, k0, n, shape = self._array_slice(e, parent)
      if shape != csym.dims():
        raise SVElabError("array port %r%r connected to an array of shape %r"
                          % (csym.name, csym.dims(), shape), cl)
      if psym.width != csym.width:
        raise SVUnsupportedError("array port connection with different element widths", cl)
      if csym.direction == "input":
        src, so, dst, do = psym, k0, csym, 0
      else:
        src, so, dst, do = csym, 0, psym, k0
      comp.reads.add(src)
      sv, dv = src.vals, dst.vals
      readers = dst.readers
      inq = self.inq; qappend = self.queue.append
      und = src.undriven
      if und is not None and not any(und[so:so + n]):
        und = None
      ur = self.undriven_reads; sname = src.path
      def run():
        if und is not None:
          ur.add(sname)
        new = sv[so:so + n]
        if dv[do:do + n] != new:
          dv[do:do + n] = new
          for r in readers:
            if not inq[r]:
              inq[r] = 1
              qappend(r)
    elif csym.direction == "input":
      rhs = comp.compile_assign_rhs(e, psc, csym.width)
      st = comp.compile_write(Ref(csym.name, [], cl), child.scope)
      run = lambda: st(rhs())
    else:
      if type(e) is not Ref:
        raise SVElabError("output port %r connected to an expression that is not assignable"
                          % csym.name, cl)
      lw = comp.resolve(e, psc).width
      rhs = comp.compile_assign_rhs(Ref(csym.name, [], cl), child.scope, lw)
      st = comp.compile_write(e, psc)
      run = lambda: st(rhs())
    self._finish_proc(pid, run, selfclear=False)

  # -- processes ---------------------------------------------------------------------------

  def _new_proc(self, kind, where):
    pid = len(self.procs)
    self.procs.append(Proc(pid, kind, None, where))
    self._runs.append(None)
    self._reads.append(())
    self._last.append(None)
    self._selfclear.append(False)
    self.inq.append(0)
    return pid

  def _finish_proc(self, pid, run, selfclear):
    p = self.procs[pid]
    p.run = run
    self._runs[pid] = run
    self._selfclear[pid] = selfclear
    if p.kind != "ff":
      self._reads[pid] = tuple(sorted(self.comp.reads, key=lambda y: y.path))
      for sym in self.comp.reads:
        if pid not in sym.readers:
          sym.readers.append(pid)
      self.inq[pid] = 1
      self.queue.append(pid)
    self.comp.reads = None
    self.comp.writes = None

  def _compile_instance(self, inst):
    comp = self.comp
    sc = inst.scope
    for it in inst.info.ast.items:
      t = type(it)
      if t is ContAssign:
        pid = self._new_proc("assign", "%s: assign (line %d)" % (inst.path or inst.modname, it.line))
        comp.reads = set(); comp.writes = set()
        ri = comp.resolve(it.lhs, sc)
        if ri.rem:
          raise SVUnsupportedError("continuous assignment to a whole unpacked array", it.line)
        rhs = comp.compile_assign_rhs(it.rhs, sc, ri.width)
        st = comp.compile_write(it.lhs, sc)
        self._finish_proc(pid, (lambda st=st, rhs=rhs: st(rhs())), selfclear=False)
      elif t is Always:
        if it.kind == "comb":
          pid = self._new_proc("comb", "%s: always_comb (line %d)" % (inst.path or inst.modname, it.line))
          comp.reads = set(); comp.writes = set()
          run = comp.compile_stmt(it.body, sc, False)
          self._finish_proc(pid, run, selfclear=True)
        else:
          pid = self._new_proc("ff", "%s: always_ff (line %d)" % (inst.path or inst.modname, it.line))
          comp.reads = set(); comp.writes = set()
          run = comp.compile_stmt(it.body, sc, True)
          cname, cl = it.clock
          csym = comp.lookup(cname, sc, cl)
          if csym.udims:
            raise SVElabError("clock %r is an array" % cname, cl)
          self.procs[pid].clock = csym
          self._finish_proc(pid, run, selfclear=False)
          self.ffprocs.append(self.procs[pid])
    for child in inst.children.values():
      self._compile_instance(child)

  # -- public API --------------------------------------------------------------------------

  def _find(self, name):
    inst = self.top
    parts = name.split(".")
    for p in parts[:-1]:
      c = inst.children.get(p)
      if c is None:
        raise KeyError("no instance %r in %r" % (p, inst.path or self.top_name))
      inst = c
    sym = inst.scope.get(parts[-1])
    if sym is None:
      raise KeyError("no variable %r in %r" % (parts[-1], inst.path or self.top_name))
    return sym

  @staticmethod
  def _elem(sym, index):
    if isinstance(index, int):
      index = (index,)
    if len(index) != len(sym.udims):
      raise IndexError("%r has %d unpacked dimension(s), index %r" % (sym.name, len(sym.udims), index))
    k = 0
    for i, (l, r) in zip(index, sym.udims):
      n = abs(l - r) + 1
      pos = i - l if l <= r else l - i
      if pos < 0 or pos >= n:
        raise IndexError("index %d out of range [%d:%d] of %r" % (i, l, r, sym.name))
      k = k * n + pos
    return k

  def set(self, port, value, index=()):
    sym = self.top.scope.get(port)
    if sym is None or sym.kind != "port" or sym.direction != "input":
      raise KeyError("%r is not an input port of %s" % (port, self.top_name))
    k = self._elem(sym, index)
    v = int(value) & _mask(sym.width)
    if sym.vals[k] != v:
      sym.vals[k] = v
      inq = self.inq
      for r in sym.readers:
        if not inq[r]:
          inq[r] = 1
          self.queue.append(r)

  def get(self, name, index=()):
    sym = self._find(name)
    return sym.vals[self._elem(sym, index)]

  def eval(self):
    q = self.queue
    inq = self.inq
    runs = self._runs
    selfclear = self._selfclear
    reads = self._reads
    last = self._last
    nba = self.nba
    n = 0
    limit = self._limit
    while True:
      while q:
        p = q.popleft()
        if not inq[p]:
          continue
        inq[p] = 0
        # sensitivity is kept per variable, so a process is also woken by a glitch on another element of an array it
        # reads (a block that assigns an element twice); it only runs if something it reads differs from what it saw
        # after its last run.  (A combinational process is a function of the variables it reads.)
        rs = reads[p]
        cur = [y.vals[:] for y in rs]
        if last[p] is not None and last[p] == cur:
          continue
        runs[p]()
        if selfclear[p]:
          inq[p] = 0
          last[p] = [y.vals[:] for y in rs]     # always_comb is not sensitive to its own writes
        else:
          last[p] = cur                          # a continuous assignment is (assign x = ~x must not settle)
        n += 1
        if n > limit:
          q.clear()
          for i in range(len(inq)):
            inq[i] = 0
          raise SVElabError("combinational loop (no fixed point after %d process evaluations; "
                            "last: %s)" % (n, self.procs[p].where))
      if nba:
        pend = nba[:]
        del nba[:]
        for put, k, msk, vs in pend:
          put(k, msk, vs)
        continue
      return

  def tick(self):
    clk = self._clk
    if clk is None or clk.kind != "port" or clk.direction != "input":
      raise SVElabError("top module %s has no input port 'clk'" % self.top_name)
    self.eval()
    ffs = self.ffprocs
    # rising edge
    self._set_sym(clk, 1)
    self.eval()
    fire = []
    for p in ffs:
      cur = p.clock.vals[0] & 1
      if cur and not p.prev:
        fire.append(p)
      p.prev = cur
    for p in fire:
      p.run()
    self.eval()          # commits the non-blocking updates, then settles
    # falling edge
    self._set_sym(clk, 0)
    self.eval()
    for p in ffs:
      p.prev = p.clock.vals[0] & 1
    self.cycles += 1

  def _set_sym(self, sym, v):
    if sym.vals[0] != v:
      sym.vals[0] = v
      inq = self.inq
      for r in sym.readers:
        if not inq[r]:
          inq[r] = 1
          self.queue.append(r)

  def dump(self):
    """{hierarchical name: value or list of values} of every variable (debugging aid)"""
    out = {}
    def walk(inst):
      for name, sym in inst.scope.items():
        out[sym.path] = sym.vals[0] if not sym.udims else list(sym.vals)
      for c in inst.children.values():
        walk(c)
    walk(self.top)
    return out
