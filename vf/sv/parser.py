"""Recursive-descent parser for the SystemVerilog subset emitted by pymtl3 (engine E2).

Grammar (read off pymtl3's Verilog and Yosys translators and their golden outputs):

  design      ::= { typedef | module }
  typedef     ::= 'typedef' 'struct' 'packed' '{' { data_type id {',' id} ';' } '}' id ';'
  module      ::= 'module' id [ '(' [ port {',' port} ] ')' ] ';' { item } 'endmodule' [':' id]
  port        ::= ('input'|'output') [ 'var' ] [ data_type ] id { udim }
  data_type   ::= ('logic'|'wire'|'reg'|'bit') ['signed'|'unsigned'] { pdim }
                | ('int'|'integer') ['signed'|'unsigned']
                | type_id { pdim }
  item        ::= 'localparam' [data_type] id {udim} '=' (expr | pattern) {',' ...} ';'
                | data_type id {udim} {',' id {udim}} ';'
                | id id '(' [ '.' id '(' [expr] ')' {',' ...} ] ')' ';'
                | 'assign' lvalue '=' expr {',' lvalue '=' expr} ';'
                | 'always_comb' stmt
                | 'always_ff' '@' '(' 'posedge' id ')' stmt
                | ';'
  stmt        ::= 'begin' [':' id] { stmt } 'end' [':' id]
                | 'if' '(' expr ')' stmt [ 'else' stmt ]
                | 'for' '(' [type] id '=' expr ';' expr ';' id ('='|'+='|'-=') expr | id ('++'|'--') ')' stmt
                | lvalue ('='|'<=') expr ';'
                | ';'
  lvalue      ::= id select
  select      ::= { '.' id | '[' expr ']' } [ '[' expr ':' expr ']' | '[' expr ('+:'|'-:') expr ']' ]
  primary     ::= number | number "'" '(' expr ')' | id select | '(' expr ')'
                | '{' expr {',' expr} '}' [ '[' range ']' ] | '{' expr '{' expr {',' expr} '}' '}' [ '[' range ']' ]
  expr        ::= IEEE 1800-2017 Table 11-2 precedence over the operators listed in BINOPS/UNOPS

As in IEEE 1800 a select may only follow an identifier (hierarchical name) or -- since 1800-2012 --
a concatenation; it may NOT follow a parenthesised expression or a cast, and nothing may follow a
part-select.  Anything else raises SVSyntaxError (SVUnsupportedError for constructs that are legal
SystemVerilog but never emitted).
"""
from .lexer import (tokenize, SVSyntaxError, SVUnsupportedError, RESERVED, GRAMMAR_KW,
                    ID, KW, NUM, OP, EOF)

# ------------------------------------------------------------------------------------------
# AST
# ------------------------------------------------------------------------------------------

class Node:
  __slots__ = ("line",)


class Num(Node):
  """width None = unsized (32 bit at least); unbased = '0 / '1"""
  __slots__ = ("width", "signed", "value", "unbased", "_sz")
  def __init__(s, width, signed, value, unbased, line):
    s._sz = None
    s.width = width; s.signed = signed; s.value = value; s.unbased = unbased; s.line = line


class Ref(Node):
  """name + selects.  sels: ('idx', e) | ('mem', name) | ('range', hi, lo) | ('plus', base, w) |
  ('minus', base, w)"""
  __slots__ = ("name", "sels", "_sz")
  def __init__(s, name, sels, line):
    s._sz = None
    s.name = name; s.sels = sels; s.line = line


class Concat(Node):
  __slots__ = ("parts", "sel", "_sz")
  def __init__(s, parts, sel, line):
    s._sz = None
    s.parts = parts; s.sel = sel; s.line = line


class Repl(Node):
  __slots__ = ("count", "parts", "sel", "_sz")
  def __init__(s, count, parts, sel, line):
    s._sz = None
    s.count = count; s.parts = parts; s.sel = sel; s.line = line


class Cast(Node):
  __slots__ = ("width", "expr", "_sz")
  def __init__(s, width, expr, line):
    s._sz = None
    s.width = width; s.expr = expr; s.line = line


class Unary(Node):
  __slots__ = ("op", "expr", "_sz")
  def __init__(s, op, expr, line):
    s._sz = None
    s.op = op; s.expr = expr; s.line = line


class Binary(Node):
  __slots__ = ("op", "lhs", "rhs", "_sz")
  def __init__(s, op, lhs, rhs, line):
    s._sz = None
    s.op = op; s.lhs = lhs; s.rhs = rhs; s.line = line


class Cond(Node):
  __slots__ = ("cond", "a", "b", "_sz")
  def __init__(s, cond, a, b, line):
    s._sz = None
    s.cond = cond; s.a = a; s.b = b; s.line = line


class Pattern(Node):
  """'{ a, b, ... } (assignment pattern; only as a localparam initialiser)"""
  __slots__ = ("items",)
  def __init__(s, items, line):
    s.items = items; s.line = line


class DataType(Node):
  """base: 'logic'|'wire'|'reg'|'bit'|'int'|'integer'|'named'|'implicit';
  name: typedef name if base == 'named'; pdims: [(hi_expr, lo_expr)]; signed: True/False/None"""
  __slots__ = ("base", "name", "pdims", "signed")
  def __init__(s, base, name, pdims, signed, line):
    s.base = base; s.name = name; s.pdims = pdims; s.signed = signed; s.line = line


class Block(Node):
  __slots__ = ("name", "stmts")
  def __init__(s, name, stmts, line):
    s.name = name; s.stmts = stmts; s.line = line


class If(Node):
  __slots__ = ("cond", "then", "els")
  def __init__(s, cond, then, els, line):
    s.cond = cond; s.then = then; s.els = els; s.line = line


class For(Node):
  """init: (DataType or None, name, expr); step: (name, op, expr or None)"""
  __slots__ = ("init", "cond", "step", "body")
  def __init__(s, init, cond, step, body, line):
    s.init = init; s.cond = cond; s.step = step; s.body = body; s.line = line


class Assign(Node):
  __slots__ = ("lhs", "rhs", "blocking")
  def __init__(s, lhs, rhs, blocking, line):
    s.lhs = lhs; s.rhs = rhs; s.blocking = blocking; s.line = line


class Null(Node):
  __slots__ = ()
  def __init__(s, line):
    s.line = line


class ParamDecl(Node):
  __slots__ = ("dtype", "name", "udims", "value")
  def __init__(s, dtype, name, udims, value, line):
    s.dtype = dtype; s.name = name; s.udims = udims; s.value = value; s.line = line


class VarDecl(Node):
  __slots__ = ("dtype", "name", "udims")
  def __init__(s, dtype, name, udims, line):
    s.dtype = dtype; s.name = name; s.udims = udims; s.line = line


class Inst(Node):
  __slots__ = ("module", "name", "conns")
  def __init__(s, module, name, conns, line):
    s.module = module; s.name = name; s.conns = conns; s.line = line


class ContAssign(Node):
  __slots__ = ("lhs", "rhs")
  def __init__(s, lhs, rhs, line):
    s.lhs = lhs; s.rhs = rhs; s.line = line


class Always(Node):
  """kind: 'comb' | 'ff'; clock: identifier for 'ff'"""
  __slots__ = ("kind", "clock", "body")
  def __init__(s, kind, clock, body, line):
    s.kind = kind; s.clock = clock; s.body = body; s.line = line


class PortDecl(Node):
  __slots__ = ("direction", "dtype", "name", "udims")
  def __init__(s, direction, dtype, name, udims, line):
    s.direction = direction; s.dtype = dtype; s.name = name; s.udims = udims; s.line = line


class TypedefStruct(Node):
  """fields: [(DataType, name, line)]"""
  __slots__ = ("name", "fields")
  def __init__(s, name, fields, line):
    s.name = name; s.fields = fields; s.line = line


class ModuleDef(Node):
  __slots__ = ("name", "ports", "items", "span")
  def __init__(s, name, ports, items, span, line):
    s.name = name; s.ports = ports; s.items = items; s.span = span; s.line = line


class DesignAST(Node):
  """typedefs / modules in source order (duplicates kept: structural_problems reports them)"""
  __slots__ = ("typedefs", "modules", "reserved_ids", "warnings")
  def __init__(s):
    s.typedefs = []; s.modules = []; s.reserved_ids = []; s.warnings = []; s.line = 1


# ------------------------------------------------------------------------------------------
# operator tables (IEEE 1800-2017 Table 11-2; higher number binds tighter)
# ------------------------------------------------------------------------------------------

BINOPS = {
  "**": 12,
  "*": 11, "/": 11, "%": 11,
  "+": 10, "-": 10,
  "<<": 9, ">>": 9, "<<<": 9, ">>>": 9,
  "<": 8, "<=": 8, ">": 8, ">=": 8,
  "==": 7, "!=": 7,
  "&": 6,
  "^": 5, "~^": 5, "^~": 5,
  "|": 4,
  "&&": 3,
  "||": 2,
}
# legal SV binary operators that the reader does not implement
_UNSUPPORTED_BINOPS = frozenset(["===", "!==", "==?", "!=?", "->", "<->", "&&&"])
UNOPS = frozenset(["+", "-", "!", "~", "&", "~&", "|", "~|", "^", "~^", "^~"])
_COND_PREC = 1

_TYPE_KW = frozenset(["logic", "wire", "reg", "bit", "int", "integer"])
_UNSUPPORTED_TYPE_KW = frozenset([
  "byte", "shortint", "longint", "time", "real", "shortreal", "realtime", "string", "chandle",
  "event", "enum", "struct", "union", "tri", "tri0", "tri1", "wand", "wor", "triand", "trior",
  "trireg", "uwire", "supply0", "supply1", "void", "type"])
_UNSUPPORTED_ITEM_KW = frozenset([
  "parameter", "always", "always_latch", "initial", "final", "generate", "genvar", "function",
  "task", "defparam", "assert", "assume", "cover", "property", "sequence", "import", "export",
  "interface", "modport", "class", "package", "program", "primitive", "specify", "specparam",
  "alias", "bind", "clocking", "covergroup", "checker", "let", "nettype", "timeunit",
  "timeprecision", "inout", "ref", "typedef", "const", "static", "automatic", "var"])
_UNSUPPORTED_STMT_KW = frozenset([
  "case", "casex", "casez", "unique", "unique0", "priority", "while", "do", "repeat", "forever",
  "foreach", "return", "break", "continue", "fork", "wait", "disable", "force", "release",
  "assign", "deassign", "assert", "assume", "cover"])


class Parser:

  def __init__(self, text, defines=(), lenient_reserved=False):
    self.text = text
    t = tokenize(text, defines)
    self.kind = t.kind; self.val = t.val; self.lines = t.line; self.off = t.off; self.end = t.end
    self.p = 0
    self.typedef_names = set()
    self.lenient = lenient_reserved
    self.ast = DesignAST()
    self.ast.warnings = list(t.warnings)

  # -- token helpers -----------------------------------------------------------------------

  def err(self, msg, p=None):
    p = self.p if p is None else p
    raise SVSyntaxError(msg, self.lines[p])

  def unsup(self, msg, p=None):
    p = self.p if p is None else p
    raise SVUnsupportedError(msg, self.lines[p])

  def show(self, p=None):
    p = self.p if p is None else p
    k = self.kind[p]
    if k == EOF:
      return "end of file"
    if k == NUM:
      return "number"
    return repr(self.val[p])

  def is_op(self, s):
    p = self.p
    return self.kind[p] == OP and self.val[p] == s

  def is_kw(self, s):
    p = self.p
    return self.kind[p] == KW and self.val[p] == s

  def accept_op(self, s):
    p = self.p
    if self.kind[p] == OP and self.val[p] == s:
      self.p = p + 1
      return True
    return False

  def accept_kw(self, s):
    p = self.p
    if self.kind[p] == KW and self.val[p] == s:
      self.p = p + 1
      return True
    return False

  def expect_op(self, s):
    p = self.p
    if self.kind[p] == OP and self.val[p] == s:
      self.p = p + 1
      return
    self.err("expected %r, found %s" % (s, self.show()))

  def expect_kw(self, s):
    p = self.p
    if self.kind[p] == KW and self.val[p] == s:
      self.p = p + 1
      return
    self.err("expected %r, found %s" % (s, self.show()))

  def ident(self, what="identifier"):
    """An identifier.  A reserved word that the subset grammar does not use itself is either a
    syntax error (default) or, in lenient mode, accepted and recorded."""
    p = self.p
    k = self.kind[p]
    if k == ID:
      self.p = p + 1
      return self.val[p]
    if k == KW and self.val[p] not in GRAMMAR_KW:
      if self.lenient:
        self.ast.reserved_ids.append((self.val[p], self.lines[p]))
        self.p = p + 1
        return self.val[p]
      self.err("reserved word %r used as %s" % (self.val[p], what))
    self.err("expected %s, found %s" % (what, self.show()))

  def at_ident(self):
    k = self.kind[self.p]
    return k == ID or (self.lenient and k == KW and self.val[self.p] not in GRAMMAR_KW)

  # -- design ------------------------------------------------------------------------------

  def parse_design(self):
    ast = self.ast
    while True:
      p = self.p
      k = self.kind[p]
      if k == EOF:
        break
      if k == KW and self.val[p] == "typedef":
        ast.typedefs.append(self.parse_typedef())
      elif k == KW and self.val[p] == "module":
        ast.modules.append(self.parse_module())
      elif k == KW and self.val[p] in ("macromodule", "interface", "package", "program", "primitive",
                                       "class", "import", "function", "task", "localparam",
                                       "parameter", "bind", "config", "checker"):
        self.unsup("%r at design level" % self.val[p])
      elif k == OP and self.val[p] == ";":
        self.p += 1           # null item
      else:
        self.err("expected 'module' or 'typedef', found %s" % self.show())
    return ast

  def parse_typedef(self):
    line = self.lines[self.p]
    self.expect_kw("typedef")
    if not self.is_kw("struct"):
      self.unsup("only 'typedef struct packed' is supported")
    self.p += 1
    if not self.accept_kw("packed"):
      self.unsup("unpacked struct")
    if self.is_kw("signed") or self.is_kw("unsigned"):
      self.unsup("signed/unsigned struct")
    self.expect_op("{")
    fields = []
    while not self.is_op("}"):
      fl = self.lines[self.p]
      dt = self.parse_data_type(allow_implicit=False)
      if dt.base in ("wire",):
        self.err("net type in struct member")
      while True:
        name = self.ident("member name")
        if self.is_op("["):
          self.err("unpacked dimension in packed struct member")
        if self.is_op("="):
          self.unsup("struct member initialiser")
        fields.append((dt, name, fl))
        if not self.accept_op(","):
          break
      self.expect_op(";")
    if not fields:
      self.err("empty struct")
    self.expect_op("}")
    if self.is_op("["):
      self.unsup("packed dimension on typedef")
    name = self.ident("type name")
    self.expect_op(";")
    self.typedef_names.add(name)
    return TypedefStruct(name, fields, line)

  # -- types -------------------------------------------------------------------------------

  def parse_pdims(self):
    dims = []
    while self.is_op("["):
      self.p += 1
      hi = self.parse_expr()
      if not self.accept_op(":"):
        self.err("expected ':' in packed dimension, found %s" % self.show())
      lo = self.parse_expr()
      self.expect_op("]")
      dims.append((hi, lo))
    return dims

  def parse_udims(self):
    """unpacked dimensions: [a:b] or [n]"""
    dims = []
    while self.is_op("["):
      self.p += 1
      a = self.parse_expr()
      if self.accept_op(":"):
        b = self.parse_expr()
      else:
        b = None
      self.expect_op("]")
      dims.append((a, b))
    return dims

  def at_data_type(self):
    p = self.p
    k = self.kind[p]
    if k == KW:
      return self.val[p] in _TYPE_KW
    return k == ID and self.val[p] in self.typedef_names

  def parse_data_type(self, allow_implicit):
    p = self.p
    line = self.lines[p]
    k = self.kind[p]
    v = self.val[p]
    if k == KW and v in _TYPE_KW:
      self.p += 1
      signed = None
      if self.accept_kw("signed"):
        signed = True
      elif self.accept_kw("unsigned"):
        signed = False
      if v in ("int", "integer"):
        if self.is_op("["):
          self.err("packed dimension on %s" % v)
        return DataType(v, None, [], signed, line)
      if v == "wire" and self.is_kw("logic"):
        self.p += 1       # 'wire logic'
        if self.accept_kw("signed"):
          signed = True
        elif self.accept_kw("unsigned"):
          signed = False
      return DataType(v, None, self.parse_pdims(), signed, line)
    if k == ID and v in self.typedef_names:
      self.p += 1
      return DataType("named", v, self.parse_pdims(), None, line)
    if k == KW and v in _UNSUPPORTED_TYPE_KW:
      self.unsup("data type %r" % v)
    if allow_implicit:
      signed = None
      if self.accept_kw("signed"):
        signed = True
      elif self.accept_kw("unsigned"):
        signed = False
      return DataType("implicit", None, self.parse_pdims(), signed, line)
    self.err("expected a data type, found %s" % self.show())

  # -- module ------------------------------------------------------------------------------

  def parse_module(self):
    p0 = self.p
    line = self.lines[p0]
    self.expect_kw("module")
    if self.is_kw("static") or self.is_kw("automatic"):
      self.unsup("module lifetime")
    name = self.ident("module name")
    if self.is_kw("import"):
      self.unsup("package import in module header")
    if self.is_op("#"):
      self.unsup("module parameter port list")
    ports = []
    if self.accept_op("("):
      if not self.is_op(")"):
        while True:
          ports.append(self.parse_port())
          if not self.accept_op(","):
            break
      self.expect_op(")")
    self.expect_op(";")
    items = []
    while True:
      p = self.p
      k = self.kind[p]
      if k == KW and self.val[p] == "endmodule":
        break
      if k == EOF:
        self.err("missing 'endmodule' for module %r (opened at line %d)" % (name, line))
      self.parse_item(items)
    self.p += 1   # endmodule
    end = self.end[self.p - 1]
    if self.accept_op(":"):
      lab = self.ident("module name")
      if lab != name:
        self.err("end label %r does not match module name %r" % (lab, name))
      end = self.end[self.p - 1]
    return ModuleDef(name, ports, items, (self.off[p0], end), line)

  def parse_port(self):
    line = self.lines[self.p]
    if self.is_kw("input"):
      direction = "input"
    elif self.is_kw("output"):
      direction = "output"
    elif self.is_kw("inout") or self.is_kw("ref") or self.is_kw("interface"):
      self.unsup("port direction/kind %r" % self.val[self.p])
    elif self.is_op("."):
      self.unsup("explicit port expression")
    else:
      if self.at_ident() or self.at_data_type():
        self.unsup("port without direction (non-ANSI header or inherited direction)")
      self.err("expected port direction, found %s" % self.show())
    self.p += 1
    if self.accept_kw("var"):
      pass
    dt = self.parse_data_type(allow_implicit=True)
    name = self.ident("port name")
    udims = self.parse_udims()
    if self.is_op("="):
      self.unsup("port default value")
    return PortDecl(direction, dt, name, udims, line)

  def parse_item(self, items):
    p = self.p
    k = self.kind[p]
    v = self.val[p]
    line = self.lines[p]
    if k == KW:
      if v == "assign":
        self.p += 1
        if self.is_op("#") or self.is_op("("):
          self.unsup("delay / drive strength on assign")
        while True:
          l2 = self.lines[self.p]
          lhs = self.parse_lvalue()
          self.expect_op("=")
          rhs = self.parse_expr()
          items.append(ContAssign(lhs, rhs, l2))
          if not self.accept_op(","):
            break
        self.expect_op(";")
        return
      if v == "always_comb":
        self.p += 1
        items.append(Always("comb", None, self.parse_stmt(), line))
        return
      if v == "always_ff":
        self.p += 1
        self.expect_op("@")
        self.expect_op("(")
        if self.is_kw("negedge") or self.is_kw("edge"):
          self.unsup("%s event" % self.val[self.p])
        self.expect_kw("posedge")
        clock = self.ident("clock name")
        if self.is_op("[") or self.is_op("."):
          self.unsup("select in event expression")
        if self.is_kw("or") or self.is_op(",") or self.is_kw("iff"):
          self.unsup("multiple events / iff in always_ff")
        self.expect_op(")")
        items.append(Always("ff", (clock, line), self.parse_stmt(), line))
        return
      if v == "localparam":
        self.p += 1
        self.parse_localparam(items, line)
        return
      if v in _TYPE_KW:
        self.parse_var_decl(items)
        return
      if v in _UNSUPPORTED_ITEM_KW or v in _UNSUPPORTED_TYPE_KW:
        self.unsup("module item %r" % v)
      if v in ("input", "output"):
        self.unsup("non-ANSI port declaration")
      if v in GRAMMAR_KW or not self.lenient:
        self.err("unexpected %s in module body" % self.show())
      # lenient: reserved word used as an identifier -> fall through to the identifier case
      k = ID
    if k == ID:
      if v in self.typedef_names:
        self.parse_var_decl(items)
        return
      # instance:  modname instname ( ... ) ;
      self.p += 1
      if self.is_op("#"):
        self.unsup("parameter override on instance")
      if not self.at_ident():
        if self.kind[self.p] == KW and self.val[self.p] not in GRAMMAR_KW:
          self.ident("instance name")      # raises the reserved-word error
        self.err("unexpected identifier %r in module body (not a type; expected declaration, "
                 "instance, assign or always block)" % v, p)
      iname = self.ident("instance name")
      if self.is_op("["):
        self.unsup("instance array")
      if not self.is_op("("):
        self.err("unknown type %r in declaration of %r" % (v, iname), p)
      self.p += 1
      conns = []
      if not self.is_op(")"):
        while True:
          cl = self.lines[self.p]
          if not self.accept_op("."):
            if self.is_op(".*"):
              self.unsup("wildcard port connection")
            self.unsup("positional port connection")
          if self.is_op("*"):
            self.unsup("wildcard port connection")
          pname = self.ident("port name")
          if not self.accept_op("("):
            self.unsup("implicit named port connection .%s" % pname)
          if self.is_op(")"):
            e = None
          else:
            e = self.parse_expr()
          self.expect_op(")")
          conns.append((pname, e, cl))
          if not self.accept_op(","):
            break
      self.expect_op(")")
      if self.is_op(","):
        self.unsup("several instances in one statement")
      self.expect_op(";")
      items.append(Inst(v, iname, conns, line))
      return
    if k == OP and v == ";":
      self.p += 1
      return
    self.err("unexpected %s in module body" % self.show())

  def parse_localparam(self, items, line):
    if self.at_data_type() or self.is_kw("signed") or self.is_kw("unsigned") or self.is_op("["):
      dt = self.parse_data_type(allow_implicit=True)
    else:
      p = self.p
      if self.kind[p] == KW and self.val[p] in _UNSUPPORTED_TYPE_KW:
        self.unsup("data type %r" % self.val[p])
      dt = DataType("implicit", None, [], None, line)
      dt = None     # untyped: takes the type of its value
    while True:
      l2 = self.lines[self.p]
      name = self.ident("parameter name")
      udims = self.parse_udims()
      self.expect_op("=")
      if self.is_op("'{"):
        value = self.parse_pattern()
      else:
        value = self.parse_expr()
      items.append(ParamDecl(dt, name, udims, value, l2))
      if not self.accept_op(","):
        break
    self.expect_op(";")

  def parse_pattern(self):
    line = self.lines[self.p]
    self.expect_op("'{")
    out = []
    while True:
      if self.is_op("'{"):
        out.append(self.parse_pattern())
      else:
        e = self.parse_expr()
        if self.is_op(":"):
          self.unsup("keyed assignment pattern")
        if self.is_op("{"):
          self.unsup("replicated assignment pattern")
        out.append(e)
      if not self.accept_op(","):
        break
    self.expect_op("}")
    return Pattern(out, line)

  def parse_var_decl(self, items):
    dt = self.parse_data_type(allow_implicit=False)
    while True:
      line = self.lines[self.p]
      name = self.ident("variable name")
      udims = self.parse_udims()
      if self.is_op("="):
        self.unsup("declaration with initialiser / net declaration assignment")
      items.append(VarDecl(dt, name, udims, line))
      if not self.accept_op(","):
        break
    self.expect_op(";")

  # -- statements --------------------------------------------------------------------------

  def parse_stmt(self):
    p = self.p
    k = self.kind[p]
    v = self.val[p]
    line = self.lines[p]
    if k == KW:
      if v == "begin":
        self.p += 1
        name = None
        if self.accept_op(":"):
          name = (self.ident("block name"), line)
        stmts = []
        while True:
          q = self.p
          kq = self.kind[q]
          if kq == KW and self.val[q] == "end":
            break
          if kq == EOF or (kq == KW and self.val[q] in ("endmodule", "module")):
            self.err("missing 'end' for 'begin' at line %d" % line)
          if kq == KW and (self.val[q] in _TYPE_KW) or (kq == ID and self.val[q] in self.typedef_names):
            self.unsup("declaration inside begin/end block")
          stmts.append(self.parse_stmt())
        self.p += 1
        if self.accept_op(":"):
          lab = self.ident("block name")
          if name is None or lab != name[0]:
            self.err("end label %r does not match block name" % lab)
        return Block(name, stmts, line)
      if v == "if":
        self.p += 1
        self.expect_op("(")
        cond = self.parse_expr()
        self.expect_op(")")
        then = self.parse_stmt()
        els = None
        if self.accept_kw("else"):
          els = self.parse_stmt()
        return If(cond, then, els, line)
      if v == "for":
        return self.parse_for()
      if v in _UNSUPPORTED_STMT_KW:
        self.unsup("statement %r" % v)
      if v in GRAMMAR_KW or not self.lenient:
        self.err("unexpected %s where a statement is expected" % self.show())
      k = ID
    if k == ID:
      lhs = self.parse_lvalue()
      if self.accept_op("="):
        blocking = True
      elif self.accept_op("<="):
        blocking = False
      else:
        q = self.p
        if self.kind[q] == OP and self.val[q] in ("+=", "-=", "*=", "/=", "%=", "&=", "|=", "^=",
                                                  "<<=", ">>=", "<<<=", ">>>=", "++", "--"):
          self.unsup("operator-assignment statement %r" % self.val[q])
        self.err("expected '=' or '<=' after assignment target, found %s" % self.show())
      if self.is_op("#") or self.is_op("@"):
        self.unsup("intra-assignment timing control")
      rhs = self.parse_expr()
      if not self.accept_op(";"):
        self.err("expected ';' after assignment, found %s" % self.show())
      return Assign(lhs, rhs, blocking, line)
    if k == OP:
      if v == ";":
        self.p += 1
        return Null(line)
      if v == "{":
        self.unsup("concatenation as assignment target")
      if v in ("#", "@", "##"):
        self.unsup("timing control")
      if v in ("++", "--"):
        self.unsup("increment/decrement statement")
    self.err("unexpected %s where a statement is expected" % self.show())

  def parse_for(self):
    line = self.lines[self.p]
    self.expect_kw("for")
    self.expect_op("(")
    dt = None
    if self.at_data_type():
      dt = self.parse_data_type(allow_implicit=False)
      if dt.base not in ("int", "integer"):
        self.unsup("loop variable of type %s" % dt.base)
    elif self.is_kw("genvar") or self.is_kw("var"):
      self.unsup("%s in for header" % self.val[self.p])
    vl = self.lines[self.p]
    var = self.ident("loop variable")
    if self.is_op("[") or self.is_op("."):
      self.unsup("select on loop variable in for-initialisation")
    self.expect_op("=")
    init = self.parse_expr()
    if self.is_op(","):
      self.unsup("several loop variables")
    self.expect_op(";")
    cond = self.parse_expr()
    self.expect_op(";")
    sl = self.lines[self.p]
    if self.is_op("++") or self.is_op("--"):
      self.unsup("pre-increment in for step")
    svar = self.ident("loop variable")
    q = self.p
    if self.kind[q] != OP:
      self.err("expected assignment operator in for step, found %s" % self.show())
    op = self.val[q]
    if op in ("=", "+=", "-="):
      self.p += 1
      sexpr = self.parse_expr()
    elif op in ("++", "--"):
      self.p += 1
      sexpr = None
    elif op in ("*=", "/=", "%=", "&=", "|=", "^=", "<<=", ">>=", "<<<=", ">>>="):
      self.unsup("for step operator %r" % op)
    else:
      self.err("expected assignment operator in for step, found %s" % self.show())
    if self.is_op(","):
      self.unsup("several for-step assignments")
    self.expect_op(")")
    body = self.parse_stmt()
    return For((dt, var, init, vl), cond, (svar, op, sexpr, sl), body, line)

  # -- expressions -------------------------------------------------------------------------

  def parse_lvalue(self):
    p = self.p
    if self.is_op("{"):
      self.unsup("concatenation as assignment target")
    line = self.lines[p]
    name = self.ident("assignment target")
    return Ref(name, self.parse_selects(), line)

  def parse_selects(self):
    sels = []
    while True:
      p = self.p
      if self.kind[p] != OP:
        break
      v = self.val[p]
      if v == ".":
        self.p = p + 1
        sels.append(("mem", self.ident("member name")))
      elif v == "[":
        self.p = p + 1
        e = self.parse_expr()
        q = self.p
        if self.kind[q] == OP:
          w = self.val[q]
          if w == "]":
            self.p = q + 1
            sels.append(("idx", e))
            continue
          if w == ":" or w == "+:" or w == "-:":
            self.p = q + 1
            e2 = self.parse_expr()
            self.expect_op("]")
            sels.append(("range" if w == ":" else ("plus" if w == "+:" else "minus"), e, e2))
            # IEEE 1800 A.8.4: the part-select is the last element of a select
            if self.is_op("[") :
              self.err("a select cannot follow a part-select")
            if self.is_op("."):
              self.err("a member access cannot follow a part-select")
            break
        self.err("expected ']' or ':' in select, found %s" % self.show())
      else:
        break
    return sels

  def parse_one_range(self):
    """optional single [range_expression] after a concatenation (1800-2012 A.8.4)"""
    if not self.is_op("["):
      return None
    self.p += 1
    e = self.parse_expr()
    if self.accept_op("]"):
      sel = ("idx", e)
    else:
      q = self.p
      if self.kind[q] == OP and self.val[q] in (":", "+:", "-:"):
        w = self.val[q]
        self.p += 1
        e2 = self.parse_expr()
        self.expect_op("]")
        sel = ("range" if w == ":" else ("plus" if w == "+:" else "minus"), e, e2)
      else:
        self.err("expected ']' or ':' in select, found %s" % self.show())
    if self.is_op("[") or self.is_op("."):
      self.err("only one select may follow a concatenation")
    return sel

  def parse_expr(self):
    return self.parse_cond()

  def parse_cond(self):
    e = self.parse_binary(2)
    if self.is_op("?"):
      line = self.lines[self.p]
      self.p += 1
      a = self.parse_cond()
      if not self.accept_op(":"):
        self.err("expected ':' of conditional expression, found %s" % self.show())
      b = self.parse_cond()
      return Cond(e, a, b, line)
    return e

  def parse_binary(self, minprec):
    lhs = self.parse_unary()
    kind = self.kind; val = self.val
    while True:
      p = self.p
      if kind[p] != OP:
        if kind[p] == KW and val[p] in ("inside", "dist", "matches", "with", "iff"):
          self.unsup("operator %r" % val[p])
        return lhs
      op = val[p]
      prec = BINOPS.get(op)
      if prec is None:
        if op in _UNSUPPORTED_BINOPS:
          self.unsup("operator %r" % op)
        if op == "[":
          self.err("a select can only follow an identifier or a concatenation, not a "
                   "parenthesised expression, cast or literal")
        if op == "'":
          if self.kind[p + 1] == OP and self.val[p + 1] == "(":
            self.unsup("cast with a non-literal size or type")
          self.err("unexpected cast tick")
        return lhs
      if prec < minprec:
        return lhs
      self.p = p + 1
      # all supported binary operators are left-associative
      rhs = self.parse_binary(prec + 1)
      lhs = Binary(op, lhs, rhs, self.lines[p])

  def parse_unary(self):
    p = self.p
    if self.kind[p] == OP:
      op = self.val[p]
      if op in UNOPS:
        self.p = p + 1
        # IEEE 1800 A.8.3: unary_operator primary.  Tools also accept a unary operator applied
        # to another unary expression (TRUSTED_BASE).
        return Unary(op, self.parse_unary(), self.lines[p])
      if op == "++" or op == "--":
        self.unsup("increment/decrement operator in expression")
    return self.parse_primary()

  def parse_primary(self):
    p = self.p
    k = self.kind[p]
    v = self.val[p]
    line = self.lines[p]
    if k == NUM:
      self.p = p + 1
      if self.is_op("'"):
        # size cast:  N ' ( expr )
        if v[0] is not None or v[3]:
          self.err("cast size must be a plain decimal literal")
        self.p += 1
        if not self.accept_op("("):
          self.err("expected '(' after cast tick, found %s" % self.show())
        e = self.parse_expr()
        self.expect_op(")")
        if v[2] <= 0:
          self.err("cast size must be positive")
        return Cast(v[2], e, line)
      return Num(v[0], v[1], v[2], v[3], line)
    if k == ID or (k == KW and self.lenient and v not in GRAMMAR_KW):
      name = self.ident()
      if self.is_op("'"):
        self.unsup("cast to a named type / parameter-sized cast")
      if self.is_op("("):
        self.unsup("function call %s(...)" % name)
      if self.is_op("::"):
        self.unsup("scope resolution")
      return Ref(name, self.parse_selects(), line)
    if k == OP:
      if v == "(":
        self.p = p + 1
        e = self.parse_expr()
        if self.is_op(":"):
          self.unsup("min:typ:max expression")
        self.expect_op(")")
        return e
      if v == "{":
        self.p = p + 1
        if self.is_op("}"):
          self.err("empty concatenation")
        if self.is_op("<<") or self.is_op(">>"):
          self.unsup("streaming concatenation")
        first = self.parse_expr()
        if self.is_op("{"):
          # replication { n { a, b } }
          self.p += 1
          parts = [self.parse_expr()]
          while self.accept_op(","):
            parts.append(self.parse_expr())
          self.expect_op("}")
          self.expect_op("}")
          return Repl(first, parts, self.parse_one_range(), line)
        parts = [first]
        while self.accept_op(","):
          parts.append(self.parse_expr())
        if not self.accept_op("}"):
          self.err("expected ',' or '}' in concatenation, found %s" % self.show())
        return Concat(parts, self.parse_one_range(), line)
      if v == "'{":
        self.unsup("assignment pattern in expression")
      if v == "'":
        self.err("cast tick without a size")
    if k == KW:
      if v in ("signed", "unsigned", "int", "integer", "logic", "bit", "byte", "shortint",
               "longint", "const", "type", "string"):
        self.unsup("cast to type %r" % v)
      if v in ("null", "this", "super", "new", "tagged"):
        self.unsup("expression keyword %r" % v)
      if v not in GRAMMAR_KW:
        self.err("reserved word %r used as identifier" % v)
    self.err("expected an expression, found %s" % self.show())


def parse(text, defines=(), lenient_reserved=False):
  """-> DesignAST"""
  ps = Parser(text, defines, lenient_reserved)
  return ps.parse_design()
