"""Lexer for the SystemVerilog subset emitted by pymtl3's translation backends (engine E2).

Pure Python, no pymtl3 import.  Tokenises by maximal munch over the *full* IEEE 1800-2017
operator set (so that e.g. ``a<<<b`` or ``a ^~ b`` can never be split into tokens a real tool
would not see); operators that are legal SystemVerilog but outside the subset are rejected
later by the parser with SVUnsupportedError.

A tiny preprocessor handles the only compiler directives the translators emit
(`` `ifndef SYNTHESIS / `ifdef / `else / `elsif / `endif / `define / `undef ``) plus the
line-oriented no-ops `` `timescale / `default_nettype / `line / `resetall / `celldefine ``.
"""
import re


class SVSyntaxError(Exception):
  """The text is outside the grammar (a real tool would report a syntax error), or outside the
  subset E2 reads (then the subclass SVUnsupportedError is raised)."""
  def __init__(self, msg, line=0):
    Exception.__init__(self, "line %d: %s" % (line, msg))
    self.msg = msg
    self.line = line


class SVUnsupportedError(SVSyntaxError):
  """Legal (or possibly legal) SystemVerilog that the emitters never produce and E2 does not read."""


class SVElabError(Exception):
  """The text parses but cannot be elaborated / executed (undeclared name, width that cannot be
  resolved, static out-of-range select, combinational loop, ...)."""
  def __init__(self, msg, line=0):
    Exception.__init__(self, ("line %d: " % line if line else "") + msg)
    self.msg = msg
    self.line = line


# IEEE 1800-2017 Annex B, Table B.1 (all reserved keywords)
RESERVED = frozenset("""
accept_on alias always always_comb always_ff always_latch and assert assign assume automatic
before begin bind bins binsof bit break buf bufif0 bufif1 byte case casex casez cell chandle
checker class clocking cmos config const constraint context continue cover covergroup coverpoint
cross deassign default defparam design disable dist do edge else end endcase endchecker endclass
endclocking endconfig endfunction endgenerate endgroup endinterface endmodule endpackage
endprimitive endprogram endproperty endspecify endsequence endtable endtask enum event eventually
expect export extends extern final first_match for force foreach forever fork forkjoin function
generate genvar global highz0 highz1 if iff ifnone ignore_bins illegal_bins implements implies
import incdir include initial inout input inside instance int integer interconnect interface
intersect join join_any join_none large let liblist library local localparam logic longint
macromodule matches medium modport module nand negedge nettype new nexttime nmos nor
noshowcancelled not notif0 notif1 null or output package packed parameter pmos posedge primitive
priority program property protected pull0 pull1 pulldown pullup pulsestyle_ondetect
pulsestyle_onevent pure rand randc randcase randsequence rcmos real realtime ref reg reject_on
release repeat restrict return rnmos rpmos rtran rtranif0 rtranif1 s_always s_eventually
s_nexttime s_until s_until_with scalared sequence shortint shortreal showcancelled signed small
soft solve specify specparam static string strong strong0 strong1 struct super supply0 supply1
sync_accept_on sync_reject_on table tagged task this throughout time timeprecision timeunit tran
tranif0 tranif1 tri tri0 tri1 triand trior trireg type typedef union unique unique0 unsigned
until until_with untyped use uwire var vectored virtual void wait wait_order wand weak weak0
weak1 while wildcard wire with within wor xnor xor
""".split())

# keywords the subset grammar itself uses (a reserved word from this set in identifier position is
# always a plain syntax error; any other reserved word in identifier position is reported as
# "reserved word used as identifier")
GRAMMAR_KW = frozenset("""
typedef struct packed module endmodule input output inout logic wire reg bit integer int signed
unsigned localparam parameter assign always_comb always_ff always always_latch posedge negedge
begin end if else for var
""".split())

_OPS = [
  "<<<=", ">>>=",
  "<<<", ">>>", "===", "!==", "==?", "!=?", "<<=", ">>=", "<->", "&&&",
  "**", "&&", "||", "==", "!=", "<=", ">=", "<<", ">>", "+=", "-=", "*=", "/=", "%=", "&=",
  "|=", "^=", "++", "--", "->", "+:", "-:", "~&", "~|", "~^", "^~", "::", "'{", "##", "#",
  "+", "-", "*", "/", "%", "&", "|", "^", "~", "!", "<", ">", "=", "?", ":", "(", ")", "[", "]",
  "{", "}", ",", ";", ".", "@", "'", "$",
]
_OP_RE = "|".join(re.escape(o) for o in _OPS)

_TOKEN_RE = re.compile(r"""
   (?P<ws>      [ \t\r\f\v]+ )
 | (?P<nl>      \n )
 | (?P<lc>      //[^\n]* )
 | (?P<bc>      /\*.*?\*/ )
 | (?P<bcbad>   /\* )
 | (?P<real>    \d[\d_]*\.\d[\d_]*(?:[eE][+-]?\d+)? | \d[\d_]*[eE][+-]?\d+ )
 | (?P<based>   (?:(?P<size>\d[\d_]*)[ \t]*)? ' (?P<sgn>[sS]?) (?P<base>[bBoOdDhH]) [ \t]*
                (?P<digits>[0-9a-fA-FxXzZ?][0-9a-fA-FxXzZ?_]*) )
 | (?P<unbased> '[01xXzZ] (?![0-9a-zA-Z_$]) )
 | (?P<dec>     \d[\d_]* )
 | (?P<id>      [A-Za-z_][A-Za-z0-9_$]* )
 | (?P<esc>     \\[^ \t\r\n]+ )
 | (?P<sysid>   \$[A-Za-z_$][A-Za-z0-9_$]* )
 | (?P<dir>     `[A-Za-z_][A-Za-z0-9_$]* )
 | (?P<str>     "(?:[^"\\\n]|\\.)*" )
 | (?P<op>      %s )
""" % _OP_RE, re.X | re.S)

_BASE_BITS = {"b": 1, "o": 3, "h": 4}
_LINE_DIRECTIVES = ("`timescale", "`default_nettype", "`line", "`resetall", "`celldefine",
                    "`endcelldefine", "`nounconnected_drive", "`unconnected_drive", "`pragma",
                    "`begin_keywords", "`end_keywords")

# token kinds
ID, KW, NUM, OP, EOF = "id", "kw", "num", "op", "eof"


class Tokens:
  """Parallel arrays: kind, val, line, off (start offset in the source), end (end offset)."""
  __slots__ = ("kind", "val", "line", "off", "end", "warnings")

  def __init__(self):
    self.kind = []; self.val = []; self.line = []; self.off = []; self.end = []
    self.warnings = []

  def __len__(self):
    return len(self.kind)


def _number(m, line, warnings):
  """-> (width or None, signed, value, unbased)"""
  size = m.group("size")
  base = m.group("base").lower()
  digits = m.group("digits").replace("_", "")
  signed = bool(m.group("sgn"))
  if any(c in "xXzZ?" for c in digits):
    raise SVUnsupportedError("x/z digits in literal %r (two-state reader)" % m.group("based"), line)
  if base == "d":
    if not digits.isdigit():
      raise SVSyntaxError("bad decimal literal %r" % m.group("based"), line)
    value = int(digits)
  else:
    bits = _BASE_BITS[base]
    try:
      value = int(digits, 1 << bits)
    except ValueError:
      raise SVSyntaxError("bad digit in literal %r" % m.group("based"), line)
  if size is not None:
    width = int(size.replace("_", ""))
    if width == 0:
      raise SVSyntaxError("zero-width literal %r" % m.group("based"), line)
    if value >> width:
      warnings.append("line %d: literal %s does not fit in %d bits (truncated)"
                      % (line, m.group("based"), width))
      value &= (1 << width) - 1
  else:
    width = None     # unsized based literal: at least 32 bits
  return (width, signed, value, False)


def tokenize(text, defines=()):
  """-> Tokens.  Raises SVSyntaxError / SVUnsupportedError."""
  toks = Tokens()
  kind, val, lines, offs, ends = toks.kind, toks.val, toks.line, toks.off, toks.end
  warnings = toks.warnings
  defined = set(defines)
  # conditional-compilation stack: entries [active_parent, taken_any_branch, currently_active]
  cond = []
  active = True
  line = 1
  pos = 0
  n = len(text)
  match = _TOKEN_RE.match
  while pos < n:
    m = match(text, pos)
    if m is None:
      raise SVSyntaxError("illegal character %r" % text[pos], line)
    g = m.lastgroup
    start = pos
    pos = m.end()
    if g == "ws":
      continue
    if g == "nl":
      line += 1
      continue
    if g == "lc":
      continue
    if g == "bc":
      line += m.group().count("\n")
      continue
    if g == "digits" or g == "size" or g == "sgn" or g == "base":
      g = "based"      # lastgroup is the last *matched* named group; nested groups win
    if g == "dir":
      d = m.group()
      if d in ("`ifdef", "`ifndef", "`elsif", "`define", "`undef"):
        m2 = re.compile(r"[ \t]*([A-Za-z_][A-Za-z0-9_$]*)").match(text, pos)
        if m2 is None:
          raise SVSyntaxError("%s needs a macro name" % d, line)
        name = m2.group(1)
        pos = m2.end()
        if d == "`define":
          # the body runs to the end of the line (continuations with backslash)
          while True:
            e = text.find("\n", pos)
            if e < 0:
              e = n
            body = text[pos:e]
            pos = e
            if body.rstrip().endswith("\\"):
              pos += 1; line += 1
              continue
            break
          if active:
            defined.add(name)
        elif d == "`undef":
          if active:
            defined.discard(name)
        elif d == "`elsif":
          if not cond:
            raise SVSyntaxError("`elsif without `ifdef", line)
          c = cond[-1]
          if c[0] and not c[1] and name in defined:
            c[1] = True; c[2] = True
          else:
            c[2] = False
          active = c[0] and c[2]
        else:
          is_def = name in defined
          take = is_def if d == "`ifdef" else not is_def
          cond.append([active, take, take])
          active = active and take
        continue
      if d == "`else":
        if not cond:
          raise SVSyntaxError("`else without `ifdef", line)
        c = cond[-1]
        c[2] = not c[1]
        c[1] = True
        active = c[0] and c[2]
        continue
      if d == "`endif":
        if not cond:
          raise SVSyntaxError("`endif without `ifdef", line)
        c = cond.pop()
        active = c[0]
        continue
      if d in _LINE_DIRECTIVES:
        e = text.find("\n", pos)
        pos = n if e < 0 else e
        continue
      if not active:
        continue
      if d == "`include":
        raise SVUnsupportedError("`include is not supported by the reader", line)
      raise SVUnsupportedError("macro use / directive %s is not supported by the reader" % d, line)
    if not active:
      if g == "str":
        line += m.group().count("\n")
      continue
    if g == "id":
      s = m.group()
      kind.append(KW if s in RESERVED else ID)
      val.append(s)
    elif g == "op":
      kind.append(OP); val.append(m.group())
    elif g == "based":
      kind.append(NUM); val.append(_number(m, line, warnings))
    elif g == "dec":
      v = int(m.group().replace("_", ""))
      kind.append(NUM); val.append((None, True, v, False))
    elif g == "unbased":
      c = m.group()[1]
      if c not in "01":
        raise SVUnsupportedError("x/z literal %r (two-state reader)" % m.group(), line)
      kind.append(NUM); val.append((1, False, int(c), True))
    elif g == "real":
      raise SVUnsupportedError("real literal %r" % m.group(), line)
    elif g == "bcbad":
      raise SVSyntaxError("unterminated block comment", line)
    elif g == "esc":
      raise SVUnsupportedError("escaped identifier %r" % m.group(), line)
    elif g == "sysid":
      raise SVUnsupportedError("system task/function %r" % m.group(), line)
    elif g == "str":
      raise SVUnsupportedError("string literal", line)
    else:  # pragma: no cover
      raise SVSyntaxError("internal lexer error at %r" % m.group(), line)
    lines.append(line); offs.append(start); ends.append(pos)
  if cond:
    raise SVSyntaxError("missing `endif", line)
  kind.append(EOF); val.append(""); lines.append(line); offs.append(n); ends.append(n)
  return toks
