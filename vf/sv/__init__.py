"""Engine E2: reader and two-state interpreter for the SystemVerilog subset that pymtl3's Verilog
and Yosys translation backends emit.  Pure Python; does not import pymtl3.

    from vf.sv import parse_design, SVSyntaxError, SVElabError
    d = parse_design(text)               # SVSyntaxError(msg, line) on anything outside the grammar
    d.modules[name].ports                # [(name, direction, packed_width, unpacked_dims, struct or None)]
    d.modules[name].instances            # [(module_name, instance_name)]
    d.modules[name].text_span            # (start, end) offsets of 'module ... endmodule'
    d.structural_problems()              # list[str]
    d.driver_problems(top)               # list[str]
    sim = d.simulate(top, strict_lrm_index_sign=False)
    sim.inputs / sim.outputs             # {port: (packed_width, unpacked_dims)}
    sim.set(port, value, index=()); sim.get("inst.sig", index=()); sim.eval(); sim.tick()
    sim.undriven_reads / sim.oob_reads / sim.oob_writes / sim.div_by_zero

SVUnsupportedError (a subclass of SVSyntaxError) marks text that may be legal SystemVerilog but is
outside the subset the emitters produce.  TRUSTED_BASE lists every interpretive choice.
"""
from .lexer import SVSyntaxError, SVUnsupportedError, SVElabError, RESERVED
from .interp import Design, Module, Simulator, TRUSTED_BASE
from . import parser as _parser


def parse_design(text, defines=(), strict=True):
  """Parse `text`.  strict=True (default): a reserved word used as an identifier is an
  SVSyntaxError, as in any real tool.  strict=False: reserved words that the subset grammar does
  not use itself are accepted as identifiers and listed by structural_problems()."""
  ast = _parser.parse(text, defines, lenient_reserved=not strict)
  return Design(ast, text)


__all__ = ["parse_design", "SVSyntaxError", "SVUnsupportedError", "SVElabError", "Design",
           "Module", "Simulator", "TRUSTED_BASE", "RESERVED"]
