"""Calibration corpus for engine E2.

run_corpus(backend) translates every DUT of pymtl3's own translation test-case repository (plus
stdlib components and the example processor / checksum unit) with the chosen backend, reads the
emitted text with E2, runs the static analyses and simulates it against the PyMTL simulation of a
fresh instance -- on the upstream test vectors (TV_IN / TV) where a case has them (upstream ran
exactly these through Verilator), on seeded pseudo-random inputs otherwise.

This module (unlike the engine) imports pymtl3.  Usage:  python -m vf.sv.corpus verilog|yosys [-v]
"""
import os
import random
import re
import shutil
import sys
import tempfile
import time
import traceback

_REPO = os.environ.get("VERIF_REPO", "/repo")
_VERIF = os.path.dirname(os.path.dirname(os.path.dirname(os.path.abspath(__file__))))
if _VERIF not in sys.path:
  sys.path.insert(0, _VERIF)          # so that `import vf.sv` works whatever the cwd
if _REPO not in sys.path:
  sys.path.insert(0, _REPO)

SEED = 20260925
N_RANDOM_CYCLES = 24


# ------------------------------------------------------------------------------------------
# case collection
# ------------------------------------------------------------------------------------------

def _collect():
  """-> [(name, factory, case_or_None)]"""
  import warnings
  with warnings.catch_warnings():
    warnings.simplefilter("ignore")
    from pymtl3.passes.testcases import test_cases as tc
  from pymtl3 import Bits1, Bits4, Bits8, Bits16, Bits32, mk_bits
  out = []
  special = {
    "CaseConnectPassThroughLongNameComp": lambda c: c.DUT(*([tc.ThisIsABitStructWithSuperLongName] * 7)),
    "CaseGenericAdderComp": lambda c: c.DUT(Bits32),
    "CaseGenericMuxComp": lambda c: c.DUT(Bits16, 3),
    "CaseGenericConditionalDriveComp": lambda c: c.DUT(Bits32),
  }
  for n in sorted(dir(tc)):
    if not n.startswith("Case"):
      continue
    c = getattr(tc, n)
    if not hasattr(c, "DUT"):
      continue
    if n in special:
      out.append((n, (lambda c=c, f=special[n]: f(c)), c))
    else:
      out.append((n, (lambda c=c: c.DUT()), c))

  def add(name, f):
    out.append((name, f, None))

  try:
    from pymtl3.stdlib.queues import queues as Q
    for qn in ("NormalQueueRTL", "PipeQueueRTL", "BypassQueueRTL"):
      cls = getattr(Q, qn)
      add("stdlib_%s_Bits8_2" % qn, lambda cls=cls: cls(Bits8, 2))
      add("stdlib_%s_Bits16_5" % qn, lambda cls=cls: cls(Bits16, 5))
    for qn in ("NormalQueue1EntryRTL", "PipeQueue1EntryRTL", "BypassQueue1EntryRTL"):
      cls = getattr(Q, qn)
      add("stdlib_%s_Bits8" % qn, lambda cls=cls: cls(Bits8))
    add("stdlib_NormalQueueRTL_struct", lambda: Q.NormalQueueRTL(tc.NestedStructPackedPlusScalar, 2))
  except Exception:       # pragma: no cover
    traceback.print_exc()
  try:
    from pymtl3.stdlib.basic_rtl import registers as R, arbiters as A, arithmetics as AR
    from pymtl3.stdlib.basic_rtl import encoders as E, crossbars as X, register_files as RF
    for rn in ("Reg", "RegEn", "RegRst", "RegEnRst"):
      cls = getattr(R, rn)
      add("stdlib_%s_Bits8" % rn, lambda cls=cls: cls(Bits8))
    add("stdlib_RegRst_Bits8_rv5", lambda: R.RegRst(Bits8, 5))
    add("stdlib_RegEnRst_Bits16_rv9", lambda: R.RegEnRst(Bits16, 9))
    add("stdlib_Reg_struct", lambda: R.Reg(tc.Bits32Foo))
    for n in (1, 2, 4, 5):
      add("stdlib_RoundRobinArbiter_%d" % n, lambda n=n: A.RoundRobinArbiter(n))
      add("stdlib_RoundRobinArbiterEn_%d" % n, lambda n=n: A.RoundRobinArbiterEn(n))
    add("stdlib_Mux_Bits8_4", lambda: AR.Mux(Bits8, 4))
    add("stdlib_Mux_Bits16_3", lambda: AR.Mux(Bits16, 3))
    add("stdlib_Mux_struct_2", lambda: AR.Mux(tc.Bits32Foo, 2))
    add("stdlib_Demux_Bits8_4", lambda: AR.Demux(Bits8, 4))
    add("stdlib_RightLogicalShifter", lambda: AR.RightLogicalShifter(Bits16, 4))
    add("stdlib_LeftLogicalShifter", lambda: AR.LeftLogicalShifter(Bits16, 4))
    add("stdlib_Incrementer", lambda: AR.Incrementer(Bits8, 3))
    for an in ("Adder", "And", "Subtractor", "ZeroComparator", "LTComparator", "LEComparator", "EqComparator"):
      cls = getattr(AR, an)
      add("stdlib_%s_Bits8" % an, lambda cls=cls: cls(Bits8))
    add("stdlib_Encoder_8_3", lambda: E.Encoder(8, 3))
    add("stdlib_Encoder_5_3", lambda: E.Encoder(5, 3))
    add("stdlib_Crossbar_4_Bits8", lambda: X.Crossbar(4, Bits8))
    add("stdlib_Crossbar_3_Bits16", lambda: X.Crossbar(3, Bits16))
    add("stdlib_RegisterFile_8x8", lambda: RF.RegisterFile(Bits8, 8, 2, 1))
    add("stdlib_RegisterFile_const0", lambda: RF.RegisterFile(Bits8, 4, 1, 2, True))
    add("stdlib_RegisterFileRst", lambda: RF.RegisterFileRst(Bits8, 4, 1, 1, False, 3))
  except Exception:       # pragma: no cover
    traceback.print_exc()
  try:
    from vf.sv import corpus_extra
    for n, cls in corpus_extra.EXTRA:
      add(n, cls)
  except Exception:       # pragma: no cover
    traceback.print_exc()
  try:
    from examples.ex02_cksum.ChecksumRTL import ChecksumRTL, StepUnit
    add("example_ChecksumRTL", lambda: ChecksumRTL())
    add("example_StepUnit", lambda: StepUnit())
  except Exception:       # pragma: no cover
    traceback.print_exc()
  try:
    from examples.ex03_proc.ProcRTL import ProcRTL
    add("example_ProcRTL", lambda: ProcRTL())
  except Exception:       # pragma: no cover
    traceback.print_exc()
  try:
    from examples.ex04_xcel.ChecksumXcelRTL import ChecksumXcelRTL
    add("example_ChecksumXcelRTL", lambda: ChecksumXcelRTL())
  except Exception:       # pragma: no cover
    traceback.print_exc()
  return out


# ------------------------------------------------------------------------------------------
# port maps
# ------------------------------------------------------------------------------------------

_IDX = re.compile(r"\[(\d+)\]")


def _type_width(T):
  from pymtl3.datatypes import is_bitstruct_class
  if isinstance(T, list):
    return len(T) * _type_width(T[0])
  if is_bitstruct_class(T):
    return sum(_type_width(t) for t in T.__bitstruct_fields__.values())
  return T.nbits


def _flatten(prefix, T, lsb, out):
  """leaves of a (struct / list) type: (flat name, width, lsb); first field most significant,
  list element 0 least significant"""
  from pymtl3.datatypes import is_bitstruct_class
  if isinstance(T, list):
    w = _type_width(T[0])
    for i in range(len(T)):
      _flatten("%s__%d" % (prefix, i), T[0], lsb + i * w, out)
  elif is_bitstruct_class(T):
    cur = lsb
    for fname, ft in reversed(list(T.__bitstruct_fields__.items())):
      _flatten("%s__%s" % (prefix, fname), ft, cur, out)
      cur += _type_width(ft)
  else:
    out.append((prefix, T.nbits, lsb))


class PortMap:
  """how one PyMTL port maps to E2 ports: list of (e2 port name, index tuple, width, lsb)"""

  def __init__(self, obj, backend):
    self.path = repr(obj)[2:]            # strip 's.'
    self.T = obj._dsl.Type
    self.width = _type_width(self.T)
    if backend == "verilog":
      idx = tuple(int(i) for i in _IDX.findall(self.path))
      name = _IDX.sub("", self.path).replace(".", "__")
      self.leaves = [(name, idx, self.width, 0)]
    else:
      flat = _IDX.sub(lambda m: "__" + m.group(1), self.path).replace(".", "__")
      leaves = []
      _flatten(flat, self.T, 0, leaves)
      self.leaves = [(n, (), w, lsb) for n, w, lsb in leaves]

  def read_ref(self, m):
    v = eval("m." + self.path, {"m": m})
    if hasattr(v, "to_bits"):
      v = v.to_bits()
    return int(v)


# ------------------------------------------------------------------------------------------
# one case
# ------------------------------------------------------------------------------------------

def _translate(factory, backend, workdir):
  if backend == "verilog":
    from pymtl3.passes.backends.verilog import VerilogTranslationPass as TP
  else:
    from pymtl3.passes.backends.yosys import YosysTranslationPass as TP
  m = factory()
  m.elaborate()
  m.set_metadata(TP.enable, True)
  m.apply(TP())
  path = m.get_metadata(TP.translated_filename)
  top = m.get_metadata(TP.translated_top_module)
  with open(os.path.join(workdir, path)) as f:
    text = f.read()
  return text, top


def _uses_placeholder(factory):
  try:
    from pymtl3.passes.backends.verilog import VerilogPlaceholder
  except Exception:     # pragma: no cover
    return False
  try:
    m = factory()
    m.elaborate()
  except Exception:
    return False
  def walk(c):
    if isinstance(c, VerilogPlaceholder):
      return True
    return any(walk(x) for x in c.get_child_components())
  return walk(m)


class _E2Env:
  """lets the upstream TV_IN / TV_OUT functions (written against a PyMTL model: `m.in_[0].foo @= Bits32(v)`,
  `assert m.out == Bits32Foo(v)`) drive and check the E2 simulations directly"""

  def __init__(self, sims, maps):
    self.sims = sims
    self.maps = {pm.path: pm for pm in maps}

  def locate(self, path):
    """-> (PortMap, lsb, width) for a port path, possibly followed by struct fields / list indices"""
    from pymtl3.datatypes import is_bitstruct_class
    pm = self.maps.get(path)
    if pm is not None:
      return pm, 0, pm.width
    # longest port prefix, then walk the struct type
    best = None
    for p in self.maps:
      if path.startswith(p) and path[len(p):len(p) + 1] in (".", "[") and (best is None or len(p) > len(best)):
        best = p
    if best is None:
      raise KeyError(path)
    pm = self.maps[best]
    T = pm.T
    lsb = 0
    for tok in re.findall(r"\.(\w+)|\[(\d+)\]", path[len(best):]):
      if tok[0]:
        if not is_bitstruct_class(T):
          raise KeyError(path)
        cur = lsb
        found = False
        for fname, ft in reversed(list(T.__bitstruct_fields__.items())):
          if fname == tok[0]:
            lsb = cur; T = ft; found = True
            break
          cur += _type_width(ft)
        if not found:
          raise KeyError(path)
      else:
        if not isinstance(T, list):
          raise KeyError(path)
        lsb += int(tok[1]) * _type_width(T[0])
        T = T[0]
    return pm, lsb, _type_width(T)

  def write(self, path, value):
    pm, lsb, w = self.locate(path)
    value &= (1 << w) - 1
    for s in self.sims:
      for (n, idx, lw, llsb) in pm.leaves:
        lo = max(lsb, llsb); hi = min(lsb + w, llsb + lw)
        if lo >= hi:
          continue
        old = s.get(n, idx)
        fm = ((1 << (hi - lo)) - 1) << (lo - llsb)
        new = (old & ~fm) | ((((value >> (lo - lsb)) << (lo - llsb))) & fm)
        s.set(n, new, idx)

  def read(self, path, s):
    pm, lsb, w = self.locate(path)
    v = 0
    for (n, idx, lw, llsb) in pm.leaves:
      v |= s.get(n, idx) << llsb
    return (v >> lsb) & ((1 << w) - 1)


def _as_int(v):
  if hasattr(v, "to_bits"):
    v = v.to_bits()
  return int(v)


class _Proxy:
  __slots__ = ("_env", "_path", "_sim")

  def __init__(self, env, path, sim):
    object.__setattr__(self, "_env", env)
    object.__setattr__(self, "_path", path)
    object.__setattr__(self, "_sim", sim)

  def __getattr__(self, name):
    p = object.__getattribute__(self, "_path")
    return _Proxy(self._env, (p + "." + name) if p else name, self._sim)

  def __getitem__(self, i):
    return _Proxy(self._env, "%s[%d]" % (self._path, i), self._sim)

  def __setattr__(self, name, v):
    pass      # result of  m.x @= v  being stored back

  def __setitem__(self, i, v):
    pass

  def __imatmul__(self, v):
    self._env.write(self._path, _as_int(v))
    return self

  def __eq__(self, other):
    return self._env.read(self._path, self._sim) == _as_int(other)

  def __ne__(self, other):
    return not self.__eq__(other)

  __hash__ = None


def _top_ports(m):
  from pymtl3 import InPort, OutPort
  ps = m.get_all_object_filter(lambda o: isinstance(o, (InPort, OutPort)) and o.get_host_component() is m
                               and o.is_top_level_signal())
  ps = sorted(ps, key=repr)
  return [p for p in ps if isinstance(p, InPort)], [p for p in ps if isinstance(p, OutPort)]


def run_case(name, factory, case, backend, verbose=False, seed=SEED):
  """-> dict(status=..., ...).  status in: rejected, placeholder, parse_fail, elab_fail, pymtl_error,
  agree, disagree"""
  from vf.sv import parse_design, SVSyntaxError, SVElabError
  import warnings
  res = {"name": name, "has_tv": bool(case is not None and hasattr(case, "TV_IN") and hasattr(case, "TV"))}
  cwd = os.getcwd()
  work = tempfile.mkdtemp(prefix="vf_e2c_")
  os.chdir(work)
  try:
    with warnings.catch_warnings():
      warnings.simplefilter("ignore")
      if _uses_placeholder(factory):
        res["status"] = "placeholder"
        return res
      try:
        text, top = _translate(factory, backend, work)
      except Exception as e:
        res["status"] = "rejected"
        res["why"] = "%s: %s" % (type(e).__name__, str(e).split("\n")[0][:120])
        return res
      res["text"] = text
      res["top"] = top
      res["lines"] = text.count("\n")
      t0 = time.perf_counter()
      try:
        d = parse_design(text)
      except SVSyntaxError as e:
        res["status"] = "parse_fail"
        res["why"] = str(e)
        return res
      res["t_parse"] = time.perf_counter() - t0
      try:
        res["structural"] = d.structural_problems()
        res["drivers"] = d.driver_problems(top)
      except (SVElabError, SVSyntaxError) as e:
        res["status"] = "elab_fail"
        res["why"] = "static analysis: %s" % e
        return res
      t0 = time.perf_counter()
      try:
        sim = d.simulate(top)
        sim2 = d.simulate(top, strict_lrm_index_sign=True)
      except (SVElabError, SVSyntaxError) as e:
        res["status"] = "elab_fail"
        res["why"] = str(e)
        return res
      res["t_elab"] = (time.perf_counter() - t0) / 2
      # port maps from a fresh elaborated instance
      from pymtl3 import DefaultPassGroup
      pm_src = factory()
      pm_src.elaborate()
      in_ports, out_ports = _top_ports(pm_src)
      ins = [PortMap(p, backend) for p in in_ports]
      outs = [PortMap(p, backend) for p in out_ports]
      want_in = {l[0] for pm in ins for l in pm.leaves}
      want_out = {l[0] for pm in outs for l in pm.leaves}
      if want_in != set(sim.inputs) or want_out != set(sim.outputs):
        res["status"] = "disagree"
        res["why"] = ("port set mismatch: missing in text %s, unexpected in text %s"
                      % (sorted((want_in | want_out) - set(sim.inputs) - set(sim.outputs)),
                         sorted((set(sim.inputs) | set(sim.outputs)) - want_in - want_out)))
        return res
      for pm in ins + outs:
        for (n, idx, w, lsb) in pm.leaves:
          have = (sim.inputs.get(n) or sim.outputs.get(n))
          if have[0] != w:
            res["status"] = "disagree"
            res["why"] = "port %s is %d bits wide in the text, expected %d" % (n, have[0], w)
            return res
      ins = [pm for pm in ins if pm.path not in ("clk", "reset")]
      # reference model (may be impossible: some upstream cases only simulate after translation)
      ref = None
      ref_err = None
      try:
        ref = factory()
        ref.elaborate()
        ref.apply(DefaultPassGroup())
        ref.sim_reset()
      except Exception as e:
        ref = None
        ref_err = "%s: %s" % (type(e).__name__, str(e).split("\n")[0][:120])
      if ref is None and not res["has_tv"]:
        res["status"] = "pymtl_error"
        res["why"] = ref_err
        return res

      sims = [("tool", sim), ("strict", sim2)]
      mism = {"tool": [], "strict": []}
      env = _E2Env([sim, sim2], ins + outs)
      proxies = {"tool": _Proxy(env, "", sim), "strict": _Proxy(env, "", sim2)}

      def compare(when):
        if ref is None:
          return
        for pm in outs:
          v = pm.read_ref(ref)
          for (n, idx, w, lsb) in pm.leaves:
            exp = (v >> lsb) & ((1 << w) - 1)
            for tag, s in sims:
              got = s.get(n, idx)
              if got != exp and len(mism[tag]) < 8:
                mism[tag].append("%s: %s%s expected 0x%x got 0x%x" % (when, n, list(idx) if idx else "", exp, got))

      # reset sequence (mirrors PrepareSimPass.sim_reset: reset=1, three ticks, reset=0)
      try:
        for _, s in sims:
          s.set("reset", 1); s.eval()
          s.tick(); s.tick(); s.tick()
          s.set("reset", 0); s.eval()
      except SVElabError as e:
        res["status"] = "disagree"
        res["why"] = "E2 run-time error: %s" % e
        return res
      compare("after reset")
      t_sim = 0.0
      ncyc = 0
      rng = random.Random(seed)
      tv_fail = None
      skipped = 0
      res["mode"] = ("tv" if res["has_tv"] else "random") + ("+pymtl" if ref is not None else "")
      try:
        if res["has_tv"]:
          vectors = list(case.TV)
        else:
          vectors = [None] * N_RANDOM_CYCLES
        cyc = -1
        while cyc + 1 < len(vectors):
          cyc += 1
          tv = vectors[cyc]
          if tv is None and ref is None:
            break       # PyMTL gave up on a random vector (recorded in pymtl_sim_error): stop here
          if tv is not None:
            case.TV_IN(proxies["tool"], tv)          # drives both E2 simulations
            if ref is not None:
              try:
                case.TV_IN(ref, tv)
                ref.sim_eval_combinational()
              except Exception as e:
                ref_err = "cycle %d: %s: %s" % (cyc, type(e).__name__, str(e).split("\n")[0][:120])
                ref = None
          else:
            for pm in ins:
              r = rng.random()
              if r < 0.1:
                v = 0
              elif r < 0.2:
                v = (1 << pm.width) - 1
              else:
                v = rng.getrandbits(pm.width)
              _write_ref(ref, pm, v)
              env.write(pm.path, v)
            try:
              ref.sim_eval_combinational()
            except Exception as e:
              # PyMTL itself rejects this input vector (e.g. an out-of-range mux select): the
              # vector is skipped; combinational state is recomputed with the next vector
              skipped += 1
              if skipped > 4 * N_RANDOM_CYCLES:
                raise
              vectors.append(None)
              continue
          t0 = time.perf_counter()
          sim.eval()
          t_sim += time.perf_counter() - t0
          sim2.eval()
          compare("cycle %d eval" % cyc)
          if tv is not None and hasattr(case, "TV_OUT"):
            for tag, _ in sims:
              try:
                case.TV_OUT(proxies[tag], tv)
              except AssertionError:
                if len(mism[tag]) < 8:
                  mism[tag].append("cycle %d: upstream TV_OUT check fails on E2 (vector %r)" % (cyc, tv))
            if ref is not None and tv_fail is None:
              try:
                case.TV_OUT(ref, tv)
              except AssertionError:
                tv_fail = "cycle %d" % cyc
          if ref is not None:
            try:
              ref.sim_tick()
            except Exception as e:
              ref_err = "cycle %d tick: %s: %s" % (cyc, type(e).__name__, str(e).split("\n")[0][:120])
              ref = None
          t0 = time.perf_counter()
          sim.tick()
          t_sim += time.perf_counter() - t0
          sim2.tick()
          compare("cycle %d tick" % cyc)
          ncyc += 1
      except SVElabError as e:
        res["status"] = "disagree"
        res["why"] = "E2 run-time error: %s" % e
        return res
      except Exception as e:
        if res["has_tv"]:
          raise
        res["status"] = "pymtl_error"
        res["why"] = "simulation: %s: %s" % (type(e).__name__, str(e).split("\n")[0][:160])
        return res
      res["cycles"] = ncyc
      res["skipped_vectors"] = skipped
      res["t_cycle"] = t_sim / max(ncyc, 1)
      res["tv_out_fails_on_pymtl"] = tv_fail
      res["pymtl_sim_error"] = ref_err
      res["undriven_reads"] = sorted(sim.undriven_reads)
      res["oob"] = sorted(sim.oob_reads | sim.oob_writes)
      res["mismatch_tool"] = mism["tool"]
      res["mismatch_strict"] = mism["strict"]
      if mism["tool"]:
        res["status"] = "disagree"
        res["why"] = "; ".join(mism["tool"][:3])
      else:
        res["status"] = "agree"
      return res
  finally:
    os.chdir(cwd)
    shutil.rmtree(work, ignore_errors=True)


def _write_ref(ref, pm, v):
  """write packed int v to a PyMTL input port (struct ports through from_bits)"""
  from pymtl3.datatypes import is_bitstruct_class, mk_bits
  T = pm.T
  if is_bitstruct_class(T):
    val = T.from_bits(mk_bits(pm.width)(v))
  else:
    val = T(v)
  # m.a.b[2] @= val
  parts = pm.path.rsplit(".", 1)
  ns = {"m": ref, "val": val}
  exec("m.%s @= val" % pm.path, ns)


# ------------------------------------------------------------------------------------------
# the corpus
# ------------------------------------------------------------------------------------------

# Disagreements are presumed E2 bugs.  The diagnoses below never look at the case name: each one is a
# property of the emitted *text* (re-checked here with plain regular expressions, independently of
# E2's own analyses) that makes the text wrong under IEEE 1800 whatever the simulator.  They were
# first established by hand-reading the emitted files (see the comments).

def _assigned_anywhere(text, name):
  """is `name` ever the target of an assignment / an instance-port connection in the text?"""
  n = re.escape(name)
  if re.search(r"(?m)^\s*(assign\s+)?%s\s*(\[[^=;]*\])*\s*(<=|=)(?!=)" % n, text):
    return True
  if re.search(r"\.\w+\s*\(\s*%s\s*(\[[^()]*\])*\s*\)" % n, text):
    return True
  if re.search(r"(?m)^\s*(input|output)\s[^;()]*\b%s\b" % n, text):
    return True
  return False


def _diagnose(res, backend, ref_factory=None):
  """-> (emitted line(s), why) if the failure is explained by a defect of the emitted text"""
  text = res.get("text", "")
  lines = text.split("\n")
  # 1. identifier used but declared nowhere (hand-read: Yosys backend, struct-typed temporaries:
  #    `u = s.in_; s.out @= u.foo` is emitted as `out = __foo;`)
  m = re.search(r"identifier '(\w+)' is not declared", res.get("why") or "")
  if m and res.get("status") == "elab_fail":
    ident = m.group(1)
    decl = re.search(r"(?m)^\s*(input|output|logic|wire|reg|integer|int|localparam)\b[^;]*\b%s\b" % re.escape(ident), text)
    use = [l.strip() for l in lines if re.search(r"(?<![\w$])%s(?![\w$])" % re.escape(ident), l) and not l.strip().startswith("//")]
    if decl is None and use:
      return (use[0], "identifier %r is used but never declared in the module (IEEE 1800 6.10: "
                      "implicit nets are created only in port connections and continuous-assignment "
                      "targets; this use is in a procedural block) -- every tool rejects the file" % ident)
  # 2. an instance instantiates a module that does not belong to the PyMTL child of that name
  #    (hand-read: Yosys backend, list of components of different classes: every element is
  #    instantiated with the module of element 0)
  if ref_factory is not None and res.get("status") == "disagree":
    try:
      m0 = ref_factory()
      m0.elaborate()
      seen = {}
      for child in m0.get_child_components(repr):
        iname = _IDX.sub(lambda mm: "__" + mm.group(1), repr(child)[2:]).replace(".", "__")
        mm = re.search(r"(?m)^\s*(\w+)\s+%s\s*\n?\s*\(" % re.escape(iname), text)
        if not mm:
          continue
        if not mm.group(1).startswith(type(child).__name__):
          return (mm.group(0).strip(), "instance %s is emitted as module %s, but the PyMTL child %r is a %s "
                  "(whose module is defined in the file and never instantiated)"
                  % (iname, mm.group(1), child, type(child).__name__))
        # children of one class built with different constructor arguments are different hardware
        # and get different module names (the file defines one module per parameter set)
        key = (type(child), repr(child._dsl.args), repr(sorted(child._dsl.kwargs.items())))
        other = seen.get(mm.group(1))
        if other is not None and other[0] != key:
          return (mm.group(0).strip(), "instances %s and %s are both emitted as module %s although the PyMTL "
                  "children were constructed with different arguments %s / %s"
                  % (other[1], iname, mm.group(1), other[0][1], key[1]))
        seen.setdefault(mm.group(1), (key, iname))
    except Exception:
      pass
  # 3. variables that are read although nothing in the whole file ever assigns them
  #    (hand-read: Yosys backend, struct wires: the packed form `w` is written, the field form
  #    `w__f` is read, and no assignment connects the two)
  if res.get("status") == "disagree":
    dead = []
    for hn in res.get("undriven_reads", []):
      name = hn.split(".")[-1]
      if not _assigned_anywhere(text, name):
        use = [l.strip() for l in lines if re.search(r"(?<![\w$])%s(?![\w$])" % re.escape(name), l)
               and not l.strip().startswith("//") and not re.match(r"\s*(logic|wire|reg)\b", l)]
        if use:
          dead.append((name, use[0]))
    if dead:
      return ("; ".join(u for _, u in dead[:3]),
              "the text reads %s, which no statement in the file ever assigns (only declared): the "
              "value is X in a four-state simulator and 0 in a two-state one, never the PyMTL value"
              % ", ".join(n for n, _ in dead))
  # 5. sign extension written as { {N{ <compound>[msb] }}, <compound> } without parentheses: the
  #    select binds to the last operand of <compound> only (IEEE 1800 A.8.4: a select belongs to the
  #    primary it follows), so the replicated operand is `a + b[7]`, not bit 7 of the sum
  #    (DESIGN.md section 4 row 4; hand-read on `sext(s.a + s.b, 16)`)
  if res.get("status") == "disagree":
    mm = re.search(r"\{\s*\{\s*\d+\s*\{\s*([^{};]*?[^\s{};(]\s+(?:[-+*/%&|^]|<<|>>)\s+[^{};]*?\w\[\d+\])\s*\}\s*\}\s*,", text)
    if mm and not mm.group(1).strip().startswith("("):
      ln = [l.strip() for l in lines if mm.group(0) in l]
      return (ln[0] if ln else mm.group(0),
              "the replicated operand `%s` is a compound expression followed by a bit-select; the select "
              "applies to the last primary only, so this is not the sign bit of the expression (and the "
              "replication operand is as wide as the whole expression)" % mm.group(1).strip())
  # 4. several continuous assignments to one variable (DESIGN.md section 4 row 5)
  if backend == "yosys" and res.get("status") == "disagree":
    multi = [p for p in res.get("drivers", []) if "multiple drivers" in p]
    if multi:
      mm = re.search(r"multiple drivers for (\w+)", multi[0])
      leaf = mm.group(1) if mm else ""
      al = [l.strip() for l in lines if re.match(r"\s*assign\s+%s\b" % re.escape(leaf), l)]
      if len(al) >= 2:
        return ("; ".join(al[:3]),
                "several continuous assignments drive the same variable (IEEE 1800 6.5: a variable "
                "may have only one); the Yosys backend assigns a leaf of a nested struct/array port "
                "from every enclosing level although only one of the source wires is ever driven")
  return None


def run_corpus(backend="verilog", verbose=False, only=None, seed=SEED):
  assert backend in ("verilog", "yosys")
  from vf.sv import TRUSTED_BASE
  t_start = time.time()
  cases = _collect()
  out = {
    "backend": backend, "tried": 0, "placeholder_skipped": 0, "rejected": 0, "accepted": 0,
    "parsed": 0, "simulated": 0, "agreed": 0, "agreed_with_tv": 0, "with_tv": 0,
    "parse_failures": [], "elab_failures": [], "disagreements": [], "pymtl_errors": [],
    "suspected_translation_defects": [], "strict_only_disagreements": [],
    "driver_problems": {}, "structural_problems": {}, "undriven_reads": {}, "tv_out_fails_on_pymtl": {},
    "oob": {}, "perf": {}, "trusted_base": list(TRUSTED_BASE), "pymtl_cannot_simulate": {}, "modes": {},
  }
  parse_rate = []
  elab_t = []
  cyc_t = []
  for name, factory, case in cases:
    if only and not re.search(only, name):
      continue
    out["tried"] += 1
    try:
      res = run_case(name, factory, case, backend, verbose, seed)
    except Exception as e:       # an engine crash is a failure of the corpus, not of the case
      res = {"name": name, "status": "elab_fail", "why": "E2 crashed: " + traceback.format_exc(),
             "has_tv": False}
    st = res["status"]
    if verbose:
      print("%-50s %-12s %s" % (name, st, res.get("why", "")[:150]))
      sys.stdout.flush()
    if st == "placeholder":
      out["placeholder_skipped"] += 1
      continue
    if st == "rejected":
      out["rejected"] += 1
      continue
    out["accepted"] += 1
    if res.get("has_tv"):
      out["with_tv"] += 1
    if st == "parse_fail":
      out["parse_failures"].append({"case": name, "why": res["why"]})
      continue
    out["parsed"] += 1
    if "t_parse" in res and res.get("lines"):
      parse_rate.append((res["t_parse"], res["lines"]))
    if res.get("drivers"):
      out["driver_problems"][name] = res["drivers"]
    if res.get("structural"):
      out["structural_problems"][name] = res["structural"]
    if st == "elab_fail":
      diag = _diagnose(res, backend, factory)
      if diag is not None:
        out["suspected_translation_defects"].append(
          {"case": name, "has_tv": res.get("has_tv"), "why": res["why"], "emitted": diag[0], "diagnosis": diag[1]})
      else:
        out["elab_failures"].append({"case": name, "why": res["why"]})
      continue
    if st == "pymtl_error":
      out["pymtl_errors"].append({"case": name, "why": res["why"]})
      continue
    out["simulated"] += 1
    if "t_elab" in res:
      elab_t.append((res["t_elab"], res["lines"]))
    if "t_cycle" in res:
      cyc_t.append(res["t_cycle"])
    if res.get("undriven_reads"):
      out["undriven_reads"][name] = res["undriven_reads"]
    if res.get("oob"):
      out["oob"][name] = res["oob"]
    if res.get("tv_out_fails_on_pymtl"):
      out["tv_out_fails_on_pymtl"][name] = res["tv_out_fails_on_pymtl"]
    if res.get("pymtl_sim_error"):
      out["pymtl_cannot_simulate"][name] = res["pymtl_sim_error"]
    out["modes"][res.get("mode")] = out["modes"].get(res.get("mode"), 0) + 1
    if st == "agree":
      out["agreed"] += 1
      if res.get("has_tv"):
        out["agreed_with_tv"] += 1
      if res.get("mismatch_strict"):
        out["strict_only_disagreements"].append({"case": name, "why": res["mismatch_strict"][:3]})
    else:
      diag = _diagnose(res, backend, factory)
      entry = {"case": name, "has_tv": res.get("has_tv"), "why": res.get("why")}
      if diag is not None:
        entry["emitted"] = diag[0]
        entry["diagnosis"] = diag[1]
        out["suspected_translation_defects"].append(entry)
      else:
        out["disagreements"].append(entry)
  if parse_rate:
    tot_t = sum(t for t, _ in parse_rate); tot_l = sum(l for _, l in parse_rate)
    out["perf"]["parse_us_per_line"] = 1e6 * tot_t / max(tot_l, 1)
  if elab_t:
    out["perf"]["elab_ms_per_100_lines"] = 1e3 * 100 * sum(t for t, _ in elab_t) / max(sum(l for _, l in elab_t), 1)
  if cyc_t:
    cyc_t.sort()
    out["perf"]["cycle_us_median"] = 1e6 * cyc_t[len(cyc_t) // 2]
    out["perf"]["cycle_us_max"] = 1e6 * cyc_t[-1]
  out["wall_s"] = time.time() - t_start
  return out


def main(argv):
  backend = argv[1] if len(argv) > 1 else "verilog"
  verbose = "-v" in argv
  only = None
  for a in argv[2:]:
    if a.startswith("--only="):
      only = a[len("--only="):]
  r = run_corpus(backend, verbose=verbose, only=only)
  keys = ["backend", "tried", "placeholder_skipped", "rejected", "accepted", "parsed", "simulated",
          "agreed", "with_tv", "agreed_with_tv"]
  print(" ".join("%s=%s" % (k, r[k]) for k in keys))
  for k in ("parse_failures", "elab_failures", "disagreements", "suspected_translation_defects",
            "pymtl_errors", "strict_only_disagreements"):
    print("%s: %d" % (k, len(r[k])))
    for e in r[k]:
      print("   ", e["case"], "--", (e.get("why") or "")[:300] if not isinstance(e.get("why"), list) else e["why"])
      if "diagnosis" in e:
        print("       emitted:", e["emitted"][:200])
        print("       why:", e["diagnosis"][:300])
  print("cases with driver problems: %d; structural problems: %d; undriven reads: %d; "
        "TV_OUT failing on PyMTL itself: %d"
        % (len(r["driver_problems"]), len(r["structural_problems"]), len(r["undriven_reads"]),
           len(r["tv_out_fails_on_pymtl"])))
  if verbose:
    for k in ("driver_problems", "structural_problems", "undriven_reads", "tv_out_fails_on_pymtl", "oob", "pymtl_cannot_simulate"):
      for c, v in r[k].items():
        print("  %s %s: %s" % (k, c, v if not isinstance(v, list) else v[:4]))
  print("modes:", r["modes"], "pymtl cannot simulate (TV-only check):", len(r["pymtl_cannot_simulate"]))
  print("perf:", r["perf"], "wall %.1fs" % r["wall_s"])
  ok = not r["parse_failures"] and not r["elab_failures"] and not [e for e in r["disagreements"] if e["has_tv"]]
  return 0 if ok else 1


if __name__ == "__main__":
  sys.exit(main(sys.argv))
