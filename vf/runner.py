"""
vf.runner -- shared driver for every property check.

  check <ID> --tier quick|thorough [--replay FILE] [--shards N]

Exit codes: 0 = property held on everything explored (KNOWN-FINDING lines may
be printed), 1 = violation (a line "VIOLATION property=<ID> replay=<path>" is
printed), 2 = harness error (never a verdict about the property).

A property module (vf/props/cXX.py) provides

  ID, LEVEL, RULE, ASSUMPTIONS        -- strings / list of strings
  run_shard(ctx)                      -- generated search; uses ctx (see Ctx)
  replay(case) -> None | (sig, detail) -- re-judge one stored case, no Hypothesis
  (optional) TRUSTED_BASE, extra_coverage(merged) -> dict, QUICK_S, THOROUGH_S
"""
import argparse
import hashlib
import importlib
import json
import multiprocessing
import os
import shutil
import sys
import tempfile
import time
import traceback

VERIF = os.path.dirname(os.path.dirname(os.path.abspath(__file__)))
REPO = os.environ.get("VERIF_REPO", "/repo")


def setup_paths():
  deps = os.path.join(VERIF, ".deps")
  for p in (deps, VERIF, REPO):
    while p in sys.path:
      sys.path.remove(p)
  # deps last so that /venv's own packages win; repo first so that a scratch
  # copy given through VERIF_REPO is what gets imported
  sys.path.insert(0, VERIF)
  sys.path.insert(0, REPO)
  sys.path.append(deps)
  # pymtl3 looks at this to pick PythonBits; leave the default (no mamba here)


class Violation(Exception):
  def __init__(self, signature, case, detail=""):
    super().__init__(f"{signature}: {detail}")
    self.signature = signature
    self.case = case
    self.detail = detail


class HarnessError(Exception):
  pass


def canon(obj):
  return json.dumps(obj, sort_keys=True, default=repr, separators=(",", ":"))


def sha12(obj):
  return hashlib.sha256(canon(obj).encode()).hexdigest()[:12]


class Ctx:
  """Per-shard context handed to run_shard."""

  def __init__(self, pid, tier, seed, shard, nshards, deadline, scratch, known):
    self.pid = pid
    self.tier = tier
    self.seed = seed
    self.shard = shard
    self.nshards = nshards
    self.deadline = deadline
    self.scratch = scratch
    self.known = known                      # list of known-finding entries
    self.evaluations = 0
    self.nontrivial = set()
    self.samples = []
    self.classes = {}
    self.violations = []                    # dicts
    self.known_hits = {}
    self.excluded = {}
    self.budget_exhausted = False
    self.extra = {}
    self.max_samples = 3

  # -- budgets ---------------------------------------------------------
  def n(self, quick, thorough):
    """Number of examples for this shard."""
    tot = quick if self.tier == "quick" else thorough
    return max(1, (tot + self.nshards - 1) // self.nshards)

  def out_of_time(self):
    if time.time() > self.deadline:
      self.budget_exhausted = True
      return True
    return False

  def hseed(self, salt=0):
    return (self.seed * 1000 + self.shard) * 64 + salt

  def settings(self, max_examples, **kw):
    from hypothesis import settings, HealthCheck, Phase
    kw.setdefault("phases", (Phase.explicit, Phase.generate, Phase.shrink))
    return settings(max_examples=max_examples, database=None, deadline=None,
                    derandomize=False, report_multiple_bugs=False,
                    suppress_health_check=list(HealthCheck), **kw)

  # -- bookkeeping -----------------------------------------------------
  def count(self, k=1):
    self.evaluations += k

  def label(self, name, k=1):
    self.classes[name] = self.classes.get(name, 0) + k

  def nontriv(self, key):
    """key: any JSON-able description of the distinct non-trivial case."""
    if len(self.nontrivial) < 2_000_000:
      self.nontrivial.add(key if isinstance(key, str) and len(key) <= 16 else sha12(key))

  def sample(self, obj):
    if len(self.samples) < self.max_samples:
      self.samples.append(obj)

  def exclude(self, name, k=1):
    self.excluded[name] = self.excluded.get(name, 0) + k

  def is_known(self, signature):
    for e in self.known:
      if e.get("kind") == "known" and e.get("signature") == signature:
        self.known_hits[signature] = self.known_hits.get(signature, 0) + 1
        return True
    return False

  def judge(self, case, verdict):
    """verdict: None or (signature, detail). Raises Violation unless known."""
    if verdict is None:
      return
    sig, detail = verdict
    if self.is_known(sig):
      return
    v = Violation(sig, case, detail)
    self.observe(v)
    raise v

  def observe(self, v):
    rec = {"signature": v.signature, "case": v.case, "detail": str(v.detail)[:4000]}
    self.violations.append(rec)
    # keep the list short: smallest cases first
    self.violations.sort(key=lambda r: len(canon(r["case"])))
    del self.violations[8:]

  # -- running hypothesis tests ------------------------------------------
  def run(self, test, name=""):
    """Run a hypothesis-wrapped test function (already given settings/seed).
    Violations raised inside are recorded (the last one raised is the shrunk
    one); anything else is a harness error."""
    import hypothesis.errors as he
    try:
      test()
    except Violation as v:
      # final (shrunk) example: put it first
      rec = {"signature": v.signature, "case": v.case, "detail": str(v.detail)[:4000],
             "shrunk": True}
      self.violations.insert(0, rec)
      del self.violations[8:]
    except he.Flaky as e:
      if self.violations:
        self.violations[0]["flaky"] = True
      else:
        raise HarnessError(f"{name}: flaky without recorded violation: {e!r}")
    except he.Unsatisfiable as e:
      raise HarnessError(f"{name}: generator unsatisfiable: {e!r}")

  def run_machine(self, machine_cls, settings, salt=0):
    from hypothesis import seed
    from hypothesis.stateful import run_state_machine_as_test
    self.run(lambda: run_state_machine_as_test(seed(self.hseed(salt))(machine_cls),
                                               settings=settings),
             name=machine_cls.__name__)

  def result(self):
    return {
      "shard": self.shard,
      "evaluations": self.evaluations,
      "nontrivial": sorted(self.nontrivial),
      "samples": self.samples,
      "classes": self.classes,
      "violations": self.violations,
      "known_hits": self.known_hits,
      "excluded": self.excluded,
      "budget_exhausted": self.budget_exhausted,
      "extra": self.extra,
    }


def load_known(pid):
  path = os.path.join(VERIF, "known_findings.json")
  if not os.path.exists(path):
    return []
  with open(path) as f:
    data = json.load(f)
  return [e for e in data.get("findings", []) if e.get("property") == pid]


def _worker(args):
  pid, tier, seed, shard, nshards, deadline, scratch_root = args
  setup_paths()
  os.environ.setdefault("PYTHONHASHSEED", "0")
  scratch = os.path.join(scratch_root, f"s{shard}")
  os.makedirs(scratch, exist_ok=True)
  os.chdir(scratch)
  sys.path.insert(0, scratch)
  sys.setrecursionlimit(10000)
  ctx = Ctx(pid, tier, seed, shard, nshards, deadline, scratch, load_known(pid))
  try:
    mod = importlib.import_module(f"vf.props.{pid.lower()}")
    mod.run_shard(ctx)
    out = ctx.result()
    out["error"] = None
  except BaseException as e:     # noqa: harness error, reported as such
    out = ctx.result()
    tb = "".join(traceback.format_exception(type(e), e, e.__traceback__))
    # keep the innermost frames and the exception line; drop Hypothesis' dump of the falsifying example
    for marker in ("Falsifying example", "Flaky example", "Unreliable test"):
      cut = tb.find(marker)
      if cut > 0: tb = tb[:cut]
    out["error"] = (tb[:1500] + "\n...\n" + tb[-4500:]) if len(tb) > 6000 else tb
  return out


def write_replay(pid, rec):
  d = os.path.join(VERIF, "replays", pid)
  os.makedirs(d, exist_ok=True)
  body = {"property": pid, "signature": rec["signature"], "detail": rec["detail"],
          "case": rec["case"]}
  path = os.path.join(d, f"found_{sha12(body['case'])}.json")
  with open(path, "w") as f:
    json.dump(body, f, indent=1, sort_keys=True, default=repr)
  return path


def do_replay(mod, path):
  with open(path) as f:
    body = json.load(f)
  return mod.replay(body["case"])


def main(argv=None):
  ap = argparse.ArgumentParser()
  ap.add_argument("pid")
  ap.add_argument("--tier", default=os.environ.get("VERIF_TIER", "quick"),
                  choices=["quick", "thorough"])
  ap.add_argument("--replay", default=None)
  ap.add_argument("--shards", type=int, default=int(os.environ.get("VERIF_SHARDS", "16")))
  ap.add_argument("--budget", type=float, default=None, help="wall seconds for generation")
  a = ap.parse_args(argv)
  pid = a.pid.upper()
  seed = int(os.environ.get("VERIF_SEED", "1") or "1")
  setup_paths()
  t0 = time.time()

  try:
    mod = importlib.import_module(f"vf.props.{pid.lower()}")
  except Exception:
    traceback.print_exc()
    print(f"HARNESS-ERROR property={pid} cannot import check module")
    return 2

  scratch_root = tempfile.mkdtemp(prefix="vf_")
  try:
    os.chdir(scratch_root)
    sys.path.insert(0, scratch_root)
    # ---------------- single replay -------------------------------------
    if a.replay:
      try:
        verdict = do_replay(mod, os.path.abspath(os.path.join(VERIF, a.replay))
                            if not os.path.isabs(a.replay) else a.replay)
      except Exception:
        traceback.print_exc()
        print(f"HARNESS-ERROR property={pid} replay crashed")
        return 2
      if verdict is None:
        print(f"REPLAY-PASS property={pid} {a.replay}")
        return 0
      print(f"REPLAY-FAIL signature={verdict[0]} detail={str(verdict[1])[:1500]}")
      print(f"VIOLATION property={pid} replay={a.replay}")
      return 1

    # ---------------- regression / known-finding tier -----------------------
    known = load_known(pid)
    violations = []
    known_lines = []
    regress = 0
    for e in known:
      w = e.get("witness")
      if not w:
        continue
      wpath = os.path.join(VERIF, w)
      try:
        verdict = do_replay(mod, wpath)
      except Exception:
        traceback.print_exc()
        print(f"HARNESS-ERROR property={pid} witness {w} crashed")
        return 2
      regress += 1
      if e.get("kind") == "known":
        if verdict is not None and verdict[0] == e.get("signature"):
          known_lines.append(f"KNOWN-FINDING: property={pid} {e.get('what','')}")
        elif verdict is not None:
          violations.append({"signature": verdict[0], "detail": verdict[1],
                             "case": json.load(open(wpath))["case"], "path": w})
        else:
          print(f"NOTE: known finding {e.get('id')} no longer reproduces on this tree")
      else:                                    # fixed: plain regression input
        if verdict is not None:
          violations.append({"signature": verdict[0], "detail": verdict[1],
                             "case": json.load(open(wpath))["case"], "path": w})
    # extra regression inputs: replays/<ID>/reg_*.json must pass
    rdir = os.path.join(VERIF, "replays", pid)
    if os.path.isdir(rdir):
      for fn in sorted(os.listdir(rdir)):
        if fn.startswith("reg_") and fn.endswith(".json"):
          wpath = os.path.join(rdir, fn)
          if any(os.path.join(VERIF, e.get("witness", "")) == wpath for e in known):
            continue
          verdict = do_replay(mod, wpath)
          regress += 1
          if verdict is not None:
            violations.append({"signature": verdict[0], "detail": verdict[1],
                               "case": json.load(open(wpath))["case"],
                               "path": os.path.relpath(wpath, VERIF)})

    # ---------------- generated search --------------------------------------
    budget = a.budget or float(getattr(mod, "QUICK_S" if a.tier == "quick" else "THOROUGH_S",
                                       90 if a.tier == "quick" else 1500))
    deadline = time.time() + budget
    nshards = max(1, a.shards)
    jobs = [(pid, a.tier, seed, i, nshards, deadline, scratch_root) for i in range(nshards)]
    if nshards == 1:
      results = [_worker(jobs[0])]
    else:
      mpc = multiprocessing.get_context("fork")
      with mpc.Pool(min(nshards, os.cpu_count() or 1), maxtasksperchild=1) as pool:
        results = pool.map(_worker, jobs, chunksize=1)

    errors = [r["error"] for r in results if r.get("error")]
    merged = {"evaluations": 0, "nontrivial": set(), "samples": [], "classes": {},
              "known_hits": {}, "excluded": {}, "budget_exhausted": False, "extra": {}}
    for r in results:
      merged["evaluations"] += r["evaluations"]
      merged["nontrivial"].update(r["nontrivial"])
      merged["samples"].extend(r["samples"][:2])
      for k, v in r["classes"].items():
        merged["classes"][k] = merged["classes"].get(k, 0) + v
      for k, v in r["known_hits"].items():
        merged["known_hits"][k] = merged["known_hits"].get(k, 0) + v
      for k, v in r["excluded"].items():
        merged["excluded"][k] = merged["excluded"].get(k, 0) + v
      merged["budget_exhausted"] |= r["budget_exhausted"]
      for k, v in r["extra"].items():
        merged["extra"].setdefault(k, []).append(v)
      for v in r["violations"][:1]:
        violations.append(v)

    if errors and not violations:
      print(errors[0])
      print(f"HARNESS-ERROR property={pid} {len(errors)} shard(s) crashed")
      return 2

    # group violations by signature, smallest case each
    by_sig = {}
    for v in violations:
      cur = by_sig.get(v["signature"])
      if cur is None or len(canon(v["case"])) < len(canon(cur["case"])):
        by_sig[v["signature"]] = v
    paths = []
    for sig, v in sorted(by_sig.items()):
      p = v.get("path") or os.path.relpath(write_replay(pid, v), VERIF)
      paths.append((sig, p, v))

    # known findings that only show up in generated search (no witness file)
    for sig, cnt in sorted(merged["known_hits"].items()):
      for e in known:
        if e.get("signature") == sig and e.get("kind") == "known":
          line = f"KNOWN-FINDING: property={pid} {e.get('what','')}"
          if line not in known_lines:
            known_lines.append(line)

    wall = time.time() - t0
    cov = {
      "evaluations": merged["evaluations"] + regress,
      "distinct_nontrivial": len(merged["nontrivial"]),
      "rule": mod.RULE,
      "samples": merged["samples"][:8] or ["(no sample recorded)"],
      "classes": dict(sorted(merged["classes"].items())),
      "regression_replays": regress,
      "shards": nshards,
      "budget_exhausted": merged["budget_exhausted"],
      "known_finding_hits": merged["known_hits"],
      "excluded_by_finding": merged["excluded"],
    }
    if hasattr(mod, "TRUSTED_BASE"):
      cov["trusted_base"] = list(mod.TRUSTED_BASE)
    if hasattr(mod, "extra_coverage"):
      try:
        cov.update(mod.extra_coverage(merged))
      except Exception:
        traceback.print_exc()
        print(f"HARNESS-ERROR property={pid} extra_coverage failed")
        return 2
    ev = {
      "property_id": pid, "tier": a.tier, "seed": seed, "level": mod.LEVEL,
      "coverage": cov, "assumptions": list(mod.ASSUMPTIONS), "wall_s": round(wall, 2),
      "violations": len(paths),
    }
    if paths:
      ev["coverage"]["violation_signatures"] = [s for s, _, _ in paths]
    os.makedirs(os.path.join(VERIF, "evidence"), exist_ok=True)
    with open(os.path.join(VERIF, "evidence", f"{pid}.json"), "w") as f:
      json.dump(ev, f, indent=1, sort_keys=True, default=repr)

    for line in known_lines:
      print(line)
    print(f"{pid} tier={a.tier} seed={seed} evaluations={cov['evaluations']} "
          f"nontrivial={cov['distinct_nontrivial']} wall={wall:.1f}s "
          f"budget_exhausted={cov['budget_exhausted']}")
    if paths:
      for sig, p, v in paths:
        print(f"  signature={sig} detail={str(v['detail'])[:600]}")
        print(f"VIOLATION property={pid} replay={p}")
      return 1
    if cov["distinct_nontrivial"] < 2:
      print(f"HARNESS-ERROR property={pid} generator produced <2 non-trivial cases")
      return 2
    return 0
  finally:
    os.chdir(VERIF)
    shutil.rmtree(scratch_root, ignore_errors=True)
