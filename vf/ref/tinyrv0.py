"""
Independent TinyRV0 reference: assembler (own encoder) + interpreter.

Written from examples/ex03_proc/tinyrv0-isa.md only.  It imports neither
pymtl3 nor the repo's tinyrv0_encoding module.

Assembly syntax (one instruction or one label per list element):

  add|sll|srl|and rd, rs1, rs2        addi rd, rs1, imm
  lw rd, imm(rs1)                     sw rs2, imm(rs1)
  bne rs1, rs2, <label>|<byte offset relative to the bne>
  csrr rd, mngr2proc|<csr number>     csrw proc2mngr|<csr number>, rs1
  nop                                  (= addi x0, x0, 0, the RISC-V canonical nop)
  name:                                (label, refers to the next instruction)

Memory map used (ISA document): reset vector 0x200, 1 MB little-endian memory.
"""

MASK32 = 0xFFFFFFFF
MEM_SIZE = 1 << 20
RESET_VECTOR = 0x200

CSR_PROC2MNGR = 0x7C0
CSR_MNGR2PROC = 0xFC0

OPC_OP, OPC_OPIMM, OPC_LOAD, OPC_STORE, OPC_BRANCH, OPC_SYSTEM = (
  0b0110011, 0b0010011, 0b0000011, 0b0100011, 0b1100011, 0b1110011)

R_FUNCT3 = {"add": 0b000, "and": 0b111, "sll": 0b001, "srl": 0b101}
R_NAME = {v: k for k, v in R_FUNCT3.items()}


class AsmError(Exception):
  pass


class Undefined(Exception):
  """The program does something the ISA document leaves undefined."""


class OutOfInput(Exception):
  """csrr mngr2proc executed with no manager value left."""


class StepLimit(Exception):
  pass


# ---------------------------------------------------------------------------
# encoder
# ---------------------------------------------------------------------------

def _chk_reg(r):
  if not (isinstance(r, int) and 0 <= r <= 31):
    raise AsmError(f"bad register {r!r}")
  return r


def enc_r(funct7, rs2, rs1, funct3, rd, opcode):
  return (funct7 << 25) | (rs2 << 20) | (rs1 << 15) | (funct3 << 12) | (rd << 7) | opcode


def enc_i(imm12, rs1, funct3, rd, opcode):
  return ((imm12 & 0xFFF) << 20) | (rs1 << 15) | (funct3 << 12) | (rd << 7) | opcode


def enc_s(imm, rs2, rs1, funct3, opcode):
  imm &= 0xFFF
  return ((imm >> 5) << 25) | (rs2 << 20) | (rs1 << 15) | (funct3 << 12) | ((imm & 0x1F) << 7) | opcode


def enc_b(imm, rs2, rs1, funct3, opcode):
  # B-immediate: imm[12] <- inst[31], imm[11] <- inst[7], imm[10:5] <- inst[30:25],
  # imm[4:1] <- inst[11:8], imm[0] = 0
  imm &= 0x1FFF
  return ((((imm >> 12) & 1) << 31) | (((imm >> 5) & 0x3F) << 25) | (rs2 << 20) | (rs1 << 15)
          | (funct3 << 12) | (((imm >> 1) & 0xF) << 8) | (((imm >> 11) & 1) << 7) | opcode)


def encode(ins):
  """ins: tuple (op, ...) with integer operands; branch operand = byte offset."""
  op = ins[0]
  if op == "nop":
    return enc_i(0, 0, 0b000, 0, OPC_OPIMM)
  if op in R_FUNCT3:
    _, rd, rs1, rs2 = ins
    return enc_r(0, _chk_reg(rs2), _chk_reg(rs1), R_FUNCT3[op], _chk_reg(rd), OPC_OP)
  if op == "addi":
    _, rd, rs1, imm = ins
    if not -2048 <= imm <= 4095: raise AsmError(f"addi immediate {imm} out of range")
    return enc_i(imm, _chk_reg(rs1), 0b000, _chk_reg(rd), OPC_OPIMM)
  if op == "lw":
    _, rd, imm, rs1 = ins
    if not -2048 <= imm <= 4095: raise AsmError(f"lw offset {imm} out of range")
    return enc_i(imm, _chk_reg(rs1), 0b010, _chk_reg(rd), OPC_LOAD)
  if op == "sw":
    _, rs2, imm, rs1 = ins
    if not -2048 <= imm <= 4095: raise AsmError(f"sw offset {imm} out of range")
    return enc_s(imm, _chk_reg(rs2), _chk_reg(rs1), 0b010, OPC_STORE)
  if op == "bne":
    _, rs1, rs2, off = ins
    if off % 2 or not -4096 <= off <= 4094: raise AsmError(f"bne offset {off} not encodable")
    return enc_b(off, _chk_reg(rs2), _chk_reg(rs1), 0b001, OPC_BRANCH)
  if op == "csrr":                       # csrrs rd, csr, x0
    _, rd, csr = ins
    return enc_i(csr, 0, 0b010, _chk_reg(rd), OPC_SYSTEM)
  if op == "csrw":                       # csrrw x0, csr, rs1
    _, csr, rs1 = ins
    return enc_i(csr, _chk_reg(rs1), 0b001, 0, OPC_SYSTEM)
  raise AsmError(f"unknown instruction {op!r}")


# ---------------------------------------------------------------------------
# text <-> tuples
# ---------------------------------------------------------------------------

def _reg(tok):
  tok = tok.strip()
  if not tok.startswith("x"): raise AsmError(f"bad register {tok!r}")
  return _chk_reg(int(tok[1:]))


def _csr(tok):
  tok = tok.strip()
  if tok == "mngr2proc": return CSR_MNGR2PROC
  if tok == "proc2mngr": return CSR_PROC2MNGR
  return int(tok, 0)


def parse_line(line):
  """-> ('label', name) or instruction tuple (branch target may be a str label)."""
  line = line.split("#")[0].strip()
  if line.endswith(":"):
    return ("label", line[:-1].strip())
  op, _, rest = line.partition(" ")
  args = [a.strip() for a in rest.split(",")] if rest.strip() else []
  if op == "nop": return ("nop",)
  if op in R_FUNCT3: return (op, _reg(args[0]), _reg(args[1]), _reg(args[2]))
  if op == "addi": return (op, _reg(args[0]), _reg(args[1]), int(args[2], 0))
  if op in ("lw", "sw"):
    imm, _, base = args[1].partition("(")
    return (op, _reg(args[0]), int(imm, 0), _reg(base.rstrip(")")))
  if op == "bne":
    t = args[2]
    try: t = int(t, 0)
    except ValueError: pass
    return (op, _reg(args[0]), _reg(args[1]), t)
  if op == "csrr": return (op, _reg(args[0]), _csr(args[1]))
  if op == "csrw": return (op, _csr(args[0]), _reg(args[1]))
  raise AsmError(f"cannot parse {line!r}")


def fmt(ins):
  op = ins[0]
  if op == "label": return f"{ins[1]}:"
  if op == "nop": return "nop"
  if op in R_FUNCT3: return f"{op} x{ins[1]}, x{ins[2]}, x{ins[3]}"
  if op == "addi": return f"addi x{ins[1]}, x{ins[2]}, {ins[3]}"
  if op in ("lw", "sw"): return f"{op} x{ins[1]}, {ins[2]}(x{ins[3]})"
  if op == "bne": return f"bne x{ins[1]}, x{ins[2]}, {ins[3]}"
  if op == "csrr":
    return f"csrr x{ins[1]}, " + ("mngr2proc" if ins[2] == CSR_MNGR2PROC else hex(ins[2]))
  if op == "csrw":
    return "csrw " + ("proc2mngr" if ins[1] == CSR_PROC2MNGR else hex(ins[1])) + f", x{ins[2]}"
  raise AsmError(f"cannot format {ins!r}")


def assemble(lines, base=RESET_VECTOR):
  """lines: list of asm strings or tuples.  -> (words, resolved instruction tuples)."""
  items = [parse_line(l) if isinstance(l, str) else tuple(l) for l in lines]
  sym, pc = {}, base
  for it in items:
    if it[0] == "label":
      if it[1] in sym: raise AsmError(f"duplicate label {it[1]}")
      sym[it[1]] = pc
    else:
      pc += 4
  words, resolved, pc = [], [], base
  for it in items:
    if it[0] == "label": continue
    if it[0] == "bne" and isinstance(it[3], str):
      if it[3] not in sym: raise AsmError(f"unknown label {it[3]}")
      it = (it[0], it[1], it[2], sym[it[3]] - pc)
    words.append(encode(it))
    resolved.append(it)
    pc += 4
  return words, resolved


def words_to_bytes(words):
  out = bytearray()
  for w in words:
    out += bytes(((w >> 0) & 0xFF, (w >> 8) & 0xFF, (w >> 16) & 0xFF, (w >> 24) & 0xFF))
  return out


def memory_image(words, data_words, data_base, base=RESET_VECTOR):
  """-> list of (address, bytes) sections: text and data."""
  return [(base, words_to_bytes(words)), (data_base, words_to_bytes(data_words))]


# ---------------------------------------------------------------------------
# decoder + interpreter
# ---------------------------------------------------------------------------

def sext(v, n):
  v &= (1 << n) - 1
  return v - (1 << n) if v >> (n - 1) else v


def decode(w):
  """32-bit word -> instruction tuple (branch operand = byte offset) or None."""
  opcode = w & 0x7F
  rd, funct3, rs1, rs2, funct7 = (w >> 7) & 31, (w >> 12) & 7, (w >> 15) & 31, (w >> 20) & 31, w >> 25
  i_imm = sext(w >> 20, 12)
  if opcode == OPC_OP and funct7 == 0 and funct3 in R_NAME:
    return (R_NAME[funct3], rd, rs1, rs2)
  if opcode == OPC_OPIMM and funct3 == 0b000:
    return ("addi", rd, rs1, i_imm)
  if opcode == OPC_LOAD and funct3 == 0b010:
    return ("lw", rd, i_imm, rs1)
  if opcode == OPC_STORE and funct3 == 0b010:
    return ("sw", rs2, sext((funct7 << 5) | rd, 12), rs1)
  if opcode == OPC_BRANCH and funct3 == 0b001:
    imm = (((w >> 31) & 1) << 12) | (((w >> 7) & 1) << 11) | (((w >> 25) & 0x3F) << 5) | (((w >> 8) & 0xF) << 1)
    return ("bne", rs1, rs2, sext(imm, 13))
  if opcode == OPC_SYSTEM and funct3 == 0b010:
    return ("csrr", rd, (w >> 20) & 0xFFF)
  if opcode == OPC_SYSTEM and funct3 == 0b001:
    return ("csrw", (w >> 20) & 0xFFF, rs1)
  return None


class Result:
  __slots__ = ("out", "mem", "regs", "consumed", "steps", "stats", "trace")


def run(sections, mngr2proc, halt_pc, max_steps=100000, keep_trace=False):
  """Execute from the reset vector until PC == halt_pc.

  sections   : [(addr, bytes)] initial memory contents
  mngr2proc  : callable i -> value of the i-th manager message, or a list
  Returns Result: out (proc2mngr sequence), mem (bytearray, 1 MB), consumed
  (list of manager values read), stats (dynamic hazard/class counters).
  """
  mem = bytearray(MEM_SIZE)
  for addr, data in sections:
    mem[addr:addr + len(data)] = data
  R = [0] * 32
  pc = RESET_VECTOR
  out, consumed = [], []
  st = {}

  def bump(k, n=1):
    st[k] = st.get(k, 0) + n

  # dynamic history for hazard classification: (dest reg or 0, opname) of the
  # last three executed instructions, most recent first
  hist = []
  last_store_addr = {}          # addr -> dynamic index of last sw
  prev_op = None
  trace = [] if keep_trace else None
  steps = 0
  while pc != halt_pc:
    if steps >= max_steps:
      raise StepLimit(f"no halt after {steps} instructions")
    if pc & 3 or not 0 <= pc <= MEM_SIZE - 4:
      raise Undefined(f"fetch from {pc:#x}")
    w = mem[pc] | (mem[pc + 1] << 8) | (mem[pc + 2] << 16) | (mem[pc + 3] << 24)
    ins = decode(w)
    if ins is None:
      raise Undefined(f"illegal instruction {w:#010x} at {pc:#x}")
    op = ins[0]
    bump("inst_" + op)
    if trace is not None: trace.append((pc, ins))
    # ---- source registers (for hazard statistics) -------------------------
    if op in R_NAME.values(): srcs = (ins[2], ins[3])
    elif op == "addi": srcs = (ins[2],)
    elif op == "lw": srcs = (ins[3],)
    elif op == "sw": srcs = (ins[1], ins[3])
    elif op == "bne": srcs = (ins[1], ins[2])
    elif op == "csrw": srcs = (ins[2],)
    else: srcs = ()
    for d, (hreg, hop) in enumerate(hist, start=1):
      if hreg and hreg in srcs:
        bump(f"raw_d{d}")
        if hop == "lw": bump(f"load_use_d{d}")
        if hop == "csrr": bump(f"csrr_use_d{d}")
        if op == "bne": bump(f"raw_into_branch_d{d}")
        if op == "sw" and hreg == ins[1]: bump(f"raw_store_data_d{d}")
        if op in ("lw", "sw") and hreg == ins[3]: bump(f"raw_addr_base_d{d}")
    if prev_op in ("csrr", "csrw") and op in ("csrr", "csrw"):
      bump(f"b2b_{prev_op}_{op}")
    if prev_op == "bne" and op == "bne": bump("b2b_bne_bne")
    # ---- execute --------------------------------------------------------------
    npc = (pc + 4) & MASK32
    dest = 0
    if op in R_NAME.values():
      a, b = R[ins[2]], R[ins[3]]
      if op == "add": v = (a + b) & MASK32
      elif op == "and": v = a & b
      elif op == "sll": v = (a << (b & 31)) & MASK32
      else: v = a >> (b & 31)
      dest = ins[1]
    elif op == "addi":
      v = (R[ins[2]] + ins[3]) & MASK32
      dest = ins[1]
      if w == 0x13: bump("nop")
    elif op in ("lw", "sw"):
      addr = (R[ins[3]] + ins[2]) & MASK32
      if addr & 3: raise Undefined(f"unaligned {op} address {addr:#x} at {pc:#x}")
      if addr > MEM_SIZE - 4: raise Undefined(f"{op} address {addr:#x} outside 1 MB at {pc:#x}")
      if ins[2] < 0: bump("mem_neg_offset")
      if ins[3] == 0: bump("mem_base_x0")
      if op == "lw":
        v = mem[addr] | (mem[addr + 1] << 8) | (mem[addr + 2] << 16) | (mem[addr + 3] << 24)
        dest = ins[1]
        if addr in last_store_addr:
          dist = steps - last_store_addr[addr]
          bump("store_load_same_addr")
          if dist <= 3: bump(f"store_load_same_addr_d{dist}")
      else:
        v = R[ins[1]]
        mem[addr] = v & 0xFF; mem[addr + 1] = (v >> 8) & 0xFF
        mem[addr + 2] = (v >> 16) & 0xFF; mem[addr + 3] = (v >> 24) & 0xFF
        last_store_addr[addr] = steps
    elif op == "bne":
      if R[ins[1]] != R[ins[2]]:
        npc = (pc + ins[3]) & MASK32
        bump("br_taken_back" if ins[3] < 0 else "br_taken_fwd")
      else:
        bump("br_nottaken_back" if ins[3] < 0 else "br_nottaken_fwd")
    elif op == "csrr":
      if ins[2] != CSR_MNGR2PROC:
        raise Undefined(f"csrr from csr {ins[2]:#x} at {pc:#x}")
      i = len(consumed)
      if callable(mngr2proc):
        v = mngr2proc(i) & MASK32
      else:
        if i >= len(mngr2proc): raise OutOfInput(f"csrr #{i} at {pc:#x}")
        v = mngr2proc[i] & MASK32
      consumed.append(v)
      dest = ins[1]
    elif op == "csrw":
      if ins[1] != CSR_PROC2MNGR:
        raise Undefined(f"csrw to csr {ins[1]:#x} at {pc:#x}")
      out.append(R[ins[2]])
    if dest:
      R[dest] = v
    elif op not in ("sw", "bne", "csrw") and w != 0x13:
      bump("write_x0")
    hist.insert(0, (dest, op))
    del hist[3:]
    prev_op = op
    pc = npc
    steps += 1
  r = Result()
  r.out, r.mem, r.regs, r.consumed, r.steps, r.stats, r.trace = out, mem, R, consumed, steps, st, trace
  return r
