"""E1 -- reference evaluator for the RTL design IR.  Imports nothing from pymtl3.

IR (all JSON-able)
  design = {"classes": {cname: cls}, "top": cname}
  cls    = {"ports": [[name, "in"|"out", type]], "wires": [[name, type]],
            "children": [[iname, cname]],
            "conns": [[dst_ref, src]],           # dst is driven by src; src = ref | ["const", w, v]
            "blocks": [{"name": n, "kind": "comb"|"ff", "stmts": [...]}],
            "uu": [[blkA, blkB]]}                 # explicit U(A) < U(B)
  type   = ["b", n] | ["s", name, fields]        (see vf.gen.structs)
  ref    = {"inst": "" | child-name, "sig": name, "fld": [field/int ...], "sl": None | [lo, hi]}
  expr   = ["sig", ref] | ["const", w, v] | ["lit", v] | ["tmp", name] | ["lv", name]
         | ["bin", op, a, b] | ["shl"|"shr", a, b] | ["cmp", op, a, b] | ["inv", a]
         | ["bit", ref, idx_expr] | ["slice_lv", ref, lvname, mul, off, w]
         | ["concat", [e..]] | ["zext"|"sext"|"trunc", e, w] | ["red", "and"|"or"|"xor", e]
         | ["ifexp", c, a, b] | ["tmpsl", name, lo, hi]
  stmt   = ["assign", ref, e] | ["assign_bit", ref, idx_expr, e] | ["tmp", name, e]
         | ["if", cond, then_stmts, else_stmts] | ["for", var, start, stop, step, body]
         | ["call", fname]            (helper function of the class: {"funcs": [{"name", "stmts"}]}, inlined)
         | ["assign_struct", ref, tname_type, [e per field]]
Values are (width, int).  "lit" and "lv" have width None (a Python int) and are only legal where
Bits accepts an int operand.
"""
from vf.gen import structs as S


class IRError(Exception):
  """the generator produced something the reference cannot interpret (harness bug)"""


def type_width(t):
  return S.leaf_width(t)


def mask(w):
  return (1 << w) - 1


class Model:
  def __init__(self, design):
    self.d = design
    self.classes = design["classes"]
    self.insts = {}                 # inst path ("" for top, "c0", "c0.g1") -> class name
    self._enum("", design["top"])
    self.sigtype = {}               # (inst, sig) -> type
    self.sigkind = {}               # (inst, sig) -> "in"|"out"|"wire"
    for ip, cn in self.insts.items():
      c = self.classes[cn]
      for n, d_, t in c["ports"]:
        self.sigtype[(ip, n)] = t; self.sigkind[(ip, n)] = d_
      for n, t in c["wires"]:
        self.sigtype[(ip, n)] = t; self.sigkind[(ip, n)] = "wire"
    # implicit 1-bit reset input of every component, wired down the hierarchy by pymtl3 itself
    self.implicit_conns = []
    for ip in self.insts:
      self.sigtype[(ip, "reset")] = ["b", 1]; self.sigkind[(ip, "reset")] = "in"
      if ip != "":
        parent, _, iname = ip.rpartition(".")
        self.implicit_conns.append((parent, ({"inst": iname, "sig": "reset", "fld": [], "sl": None},
                                             {"inst": "", "sig": "reset", "fld": [], "sl": None})))
    self.state = {k: 0 for k in self.sigtype}
    self.regs = set()               # keys written by ff blocks
    for ip, cn in self.insts.items():
      for b in self.classes[cn]["blocks"]:
        if b["kind"] == "ff":
          for key in self._written_keys(ip, b["stmts"]):
            self.regs.add(key)
    self.rw = None

  def _enum(self, ip, cn):
    self.insts[ip] = cn
    for iname, ccn in self.classes[cn]["children"]:
      self._enum(iname if ip == "" else ip + "." + iname, ccn)

  # -- reference resolution ---------------------------------------------
  def key_of(self, ip, ref):
    sub = ref["inst"]
    tip = ip if not sub else (sub if ip == "" else ip + "." + sub)
    return (tip, ref["sig"])

  def resolve(self, ip, ref):
    """-> (key, lo, hi) bit range inside the packed storage"""
    key = self.key_of(ip, ref)
    t = self.sigtype[key]
    lo, hi = 0, type_width(t)
    if ref["fld"]:
      pos = field_range(t, ref["fld"])
      lo, hi = pos
    if ref["sl"] is not None:
      a, b = ref["sl"]
      if not (0 <= a < b <= hi - lo): raise IRError(f"bad slice {ref}")
      lo, hi = lo + a, lo + b
    return key, lo, hi

  def ref_width(self, ip, ref):
    _, lo, hi = self.resolve(ip, ref)
    return hi - lo

  def read(self, ip, ref, st=None):
    key, lo, hi = self.resolve(ip, ref)
    st = self.state if st is None else st
    return (hi - lo, (st[key] >> lo) & mask(hi - lo))

  def write(self, st, ip, ref, w, v):
    key, lo, hi = self.resolve(ip, ref)
    if hi - lo != w: raise IRError(f"width mismatch writing {ref}: {hi-lo} vs {w}")
    st[key] = (st[key] & ~(mask(w) << lo)) | ((v & mask(w)) << lo)

  # -- expressions --------------------------------------------------------
  def ev(self, ip, e, env, st):
    k = e[0]
    if k == "sig": return self.read(ip, e[1], st)
    if k == "const": return (e[1], e[2] & mask(e[1]))
    if k == "lit": return (None, e[1])
    if k == "lv": return (None, env["lv"][e[1]])
    if k == "cvar":
      return (None, e[2]) if isinstance(e[2], int) else (e[2][1], e[2][2] & mask(e[2][1]))
    if k == "lsel":
      r = self._lsel_ref(ip, e, env, st)
      return self.read(ip, r, st)
    if k == "cast":
      w, v = self.ev(ip, e[2], env, st)
      if w is None:
        if not (0 <= v < (1 << e[1])): raise IRError("cast of an int that does not fit")
        return (e[1], v)
      if w != e[1]: raise IRError("width-changing cast of a Bits value")
      return (w, v)
    if k == "arg": return env["args"][e[1]]
    if k == "fcall":
      # value-returning helper function: {"name", "params": [[pname, width]], "ret": expr}; evaluated inline
      f = self.func_def(ip, e[1])
      args = {}
      for (pn, pw), a in zip(f["params"], e[2]):
        w, v = self.ev(ip, a, env, st)
        if w is None: w = pw
        if w != pw: raise IRError("function argument width")
        args[pn] = (w, v)
      return self.ev(ip, f["ret"], {"tmp": {}, "lv": {}, "args": args}, st)
    if k == "tmp": return env["tmp"][e[1]]
    if k == "tmpsl":
      w, v = env["tmp"][e[1]]
      lo, hi = e[2], e[3]
      if not (0 <= lo < hi <= w): raise IRError("tmp slice")
      return (hi - lo, (v >> lo) & mask(hi - lo))
    if k == "bin":
      op = e[1]
      (wa, a), (wb, b) = self.ev(ip, e[2], env, st), self.ev(ip, e[3], env, st)
      w = self._join(wa, a, wb, b)
      if op == "+": r = a + b
      elif op == "-": r = a - b
      elif op == "*": r = a * b
      elif op == "&": r = a & b
      elif op == "|": r = a | b
      elif op == "^": r = a ^ b
      else: raise IRError(op)
      return (w, r & mask(w))
    if k in ("shl", "shr"):
      (wa, a), (wb, b) = self.ev(ip, e[1], env, st), self.ev(ip, e[2], env, st)
      if wa is None: raise IRError("shift of int")
      if wb is not None and wb != wa: raise IRError("shift amount width")
      if wb is None and not (0 <= b <= mask(wa)): raise IRError("shift literal range")
      if k == "shl": r = 0 if b >= wa else (a << b) & mask(wa)
      else: r = a >> b
      return (wa, r)
    if k == "cmp":
      op = e[1]
      (wa, a), (wb, b) = self.ev(ip, e[2], env, st), self.ev(ip, e[3], env, st)
      self._join(wa, a, wb, b)
      r = {"==": a == b, "!=": a != b, "<": a < b, "<=": a <= b, ">": a > b, ">=": a >= b}[op]
      return (1, int(r))
    if k == "inv":
      w, a = self.ev(ip, e[1], env, st)
      if w is None: raise IRError("~int")
      return (w, ~a & mask(w))
    if k == "bit":
      w, v = self.read(ip, e[1], st)
      wi, i = self.ev(ip, e[2], env, st)
      if not (0 <= i < w): raise IRError(f"bit index {i} out of range {w}")
      return (1, (v >> i) & 1)
    if k == "slice_lv":
      w, v = self.read(ip, e[1], st)
      i = env["lv"][e[2]]
      lo = i * e[3] + e[4]; hi = lo + e[5]
      if not (0 <= lo < hi <= w): raise IRError("slice_lv range")
      return (e[5], (v >> lo) & mask(e[5]))
    if k == "concat":
      tw, tv = 0, 0
      for x in e[1]:
        w, v = self.ev(ip, x, env, st)
        if w is None: raise IRError("concat int")
        tw += w; tv = (tv << w) | v
      return (tw, tv)
    if k in ("zext", "sext", "trunc"):
      w, v = self.ev(ip, e[1], env, st)
      t = e[2]
      if w is None: raise IRError("ext int")
      if k == "trunc":
        if t > w: raise IRError("trunc wider")
        return (t, v & mask(t))
      if t < w: raise IRError("ext narrower")
      if k == "sext" and (v >> (w - 1)) & 1:
        v |= mask(t) ^ mask(w)
      return (t, v)
    if k == "red":
      w, v = self.ev(ip, e[2], env, st)
      if w is None: raise IRError("reduce int")
      r = {"and": v == mask(w), "or": v != 0, "xor": bin(v).count("1") & 1}[e[1]]
      return (1, int(r))
    if k == "ifexp":
      wc, c = self.ev(ip, e[1], env, st)
      (wa, a), (wb, b) = self.ev(ip, e[2], env, st), self.ev(ip, e[3], env, st)
      if wa is None and wb is None: raise IRError("ifexp of two ints")
      if wa is not None and wb is not None and wa != wb: raise IRError("ifexp widths")
      ww = wa if wa is not None else wb
      for wx, x in ((wa, a), (wb, b)):
        if wx is None and not (0 <= x < (1 << ww)): raise IRError("ifexp literal does not fit")
      return (wa, a) if c else (wb, b)
    raise IRError(f"unknown expr {k}")

  @staticmethod
  def _join(wa, a, wb, b):
    if wa is None and wb is None: raise IRError("int op int")
    if wa is None:
      if not (0 <= a <= mask(wb)): raise IRError("int operand out of range")
      return wb
    if wb is None:
      if not (0 <= b <= mask(wa)): raise IRError("int operand out of range")
      return wa
    if wa != wb: raise IRError(f"width mismatch {wa} {wb}")
    return wa

  def _lsel_ref(self, ip, e, env, st):
    """["lsel", ref, dims, idx, sl?, fld?]: dims/idx are an int/expr (1-D) or lists (n-D)"""
    dims = e[2] if isinstance(e[2], list) else [e[2]]
    idxs = e[3] if isinstance(e[2], list) else [e[3]]
    name = e[1]["sig"]
    for dm, ie in zip(dims, idxs):
      wi, i = self.ev(ip, ie, env, st)
      if not (0 <= i < dm): raise IRError("list index out of range")
      name += f"[{i}]"
    r = dict(e[1]); r["sig"] = name
    if len(e) > 5 and e[5]: r["fld"] = list(e[5])
    if len(e) > 4 and e[4] is not None: r["sl"] = list(e[4])
    return r

  # -- statements ---------------------------------------------------------
  def run_stmts(self, ip, stmts, env, rd, wr):
    """rd: state read from; wr: callable(ref, w, v)"""
    for s in stmts:
      k = s[0]
      if k == "assign":
        w, v = self.ev(ip, s[2], env, rd)
        tw = self.ref_width(ip, s[1])
        if w is None:
          if not (-(1 << (tw - 1)) <= v <= mask(tw)): raise IRError("literal does not fit")
          w = tw
        wr(s[1], w, v)
      elif k == "assign_bit":
        wi, i = self.ev(ip, s[2], env, rd)
        w, v = self.ev(ip, s[3], env, rd)
        tw = self.ref_width(ip, s[1])
        if not (0 <= i < tw): raise IRError("assign_bit index")
        if w is None:
          if v not in (0, 1): raise IRError("bit literal")
        elif w != 1: raise IRError("assign_bit width")
        r = dict(s[1]); r["sl"] = [i, i + 1]
        wr(r, 1, v)
      elif k == "assign_struct":
        vals = [self.ev(ip, x, env, rd) for x in s[3]]
        t = s[2]
        tot = 0; acc = 0
        for (fname, ft), (w, v) in zip(t[2], vals):
          fw = type_width(ft)
          if w is None: w = fw
          if w != fw: raise IRError("struct field width")
          acc = (acc << fw) | (v & mask(fw)); tot += fw
        wr(s[1], tot, acc)
      elif k == "tmp":
        w, v = self.ev(ip, s[2], env, rd)
        if w is None: raise IRError("tmp from int")
        env["tmp"][s[1]] = (w, v)
      elif k == "if":
        wc, c = self.ev(ip, s[1], env, rd)
        self.run_stmts(ip, s[2] if c else s[3], env, rd, wr)
      elif k == "for":
        for i in range(s[2], s[3], s[4]):
          env["lv"][s[1]] = i
          self.run_stmts(ip, s[5], env, rd, wr)
      elif k == "call":
        # a helper function has its own local names; it reads and writes the component's signals
        self.run_stmts(ip, self.func_stmts(ip, s[1]), {"tmp": {}, "lv": {}}, rd, wr)
      else:
        raise IRError(f"unknown stmt {k}")

  def func_def(self, ip, fname):
    for f in self.classes[self.insts[ip]].get("funcs", []):
      if f["name"] == fname: return f
    raise IRError(f"unknown function {fname}")

  def func_stmts(self, ip, fname):
    return self.func_def(ip, fname)["stmts"]

  def _written_keys(self, ip, stmts):
    out = set()
    for s in stmts:
      if s[0] in ("assign", "assign_bit", "assign_struct"): out.add(self.key_of(ip, s[1]))
      elif s[0] == "call": out |= self._written_keys(ip, self.func_stmts(ip, s[1]))
      elif s[0] == "if": out |= self._written_keys(ip, s[2]) | self._written_keys(ip, s[3])
      elif s[0] == "for": out |= self._written_keys(ip, s[5])
    return out

  # -- simulation ---------------------------------------------------------
  def comb_units(self):
    """list of (ip, kind, payload) for every comb block and every connection"""
    units = []
    for ip, cn in self.insts.items():
      c = self.classes[cn]
      for b in c["blocks"]:
        if b["kind"] in ("comb", "once"): units.append((ip, "blk", b))
      for dst, src in c["conns"]:
        units.append((ip, "conn", (dst, src)))
    for ip, p in self.implicit_conns:
      units.append((ip, "conn", p))
    return units

  def run_unit(self, u, st):
    ip, kind, p = u
    if kind == "blk":
      env = {"tmp": {}, "lv": {}}
      self.run_stmts(ip, p["stmts"], env, st, lambda ref, w, v: self.write(st, ip, ref, w, v))
    else:
      dst, src = p
      if isinstance(src, list):                 # ["const", w, v]
        w, v = src[1], src[2] & mask(src[1])
      else:
        w, v = self.read(ip, src, st)
      self.write(st, ip, dst, w, v)

  def _fix(self, st, units):
    for sweep in range(len(units) * 3 + 8):
      before = dict(st)
      for u in units:
        self.run_unit(u, st)
      if st == before:
        return
    raise IRError("reference did not converge: design is not acyclic")

  def eval_comb(self, check_confluence=False):
    units = self.comb_units()
    self._fix(self.state, units)
    if check_confluence:
      # a second, reversed sweep order started from a state in which every
      # combinational signal is zeroed must reach the same fixed point
      st2 = before_inputs(self, self.state)
      self._fix(st2, units[::-1])
      if st2 != self.state:
        bad = [k for k in st2 if st2[k] != self.state[k]]
        raise IRError(f"reference not confluent on {bad[:4]} (generator discipline broken)")

  def tick(self, pre_eval=True):
    # pre_eval=False models designs with update_once blocks: pymtl3's sim_tick then runs ff blocks,
    # the flip and only afterwards the combinational schedule
    if pre_eval: self.eval_comb()
    pre = dict(self.state)
    nxt = {}
    for ip, cn in self.insts.items():
      for b in self.classes[cn]["blocks"]:
        if b["kind"] != "ff": continue
        env = {"tmp": {}, "lv": {}}

        def wr(ref, w, v, ip=ip):
          key, lo, hi = self.resolve(ip, ref)
          if lo != 0 or hi != type_width(self.sigtype[key]): raise IRError("<<= on non top-level signal")
          if hi - lo != w: raise IRError("ff width")
          nxt[key] = v & mask(w)
        self.run_stmts(ip, b["stmts"], env, pre, wr)
    self.state.update(nxt)
    self.eval_comb()

  def set_input(self, name, v):
    t = self.sigtype[("", name)]
    self.state[("", name)] = v & mask(type_width(t))

  def snapshot(self):
    return {(ip + "." if ip else "") + n: v for (ip, n), v in self.state.items()}


def before_inputs(m, snap):
  """state containing only inputs and registers of snap; everything else zeroed
  (used for the confluence self-check: comb signals must be re-derivable)."""
  out = {}
  for k, v in snap.items():
    if k in m.regs or (k[0] == "" and m.sigkind[k] == "in"): out[k] = v
    else: out[k] = 0
  return out


def field_range(t, fld):
  """bit range (lo, hi) of the sub-object named by fld (field names and list indices, may stop at
  a nested struct or a list element) inside type t."""
  pos, tot = S.positions(t)
  pref = tuple(fld)
  los = [lo for p, (lo, hi) in pos.items() if p[:len(pref)] == pref]
  his = [hi for p, (lo, hi) in pos.items() if p[:len(pref)] == pref]
  if not los: raise IRError(f"no such field {fld}")
  lo, hi = min(los), max(his)
  # contiguity holds for a complete sub-object
  if sum(h - l for p, (l, h) in pos.items() if p[:len(pref)] == pref) != hi - lo:
    raise IRError("non-contiguous field")
  return lo, hi


def field_type(t, fld):
  for f in fld:
    if isinstance(f, int):
      if t[0] != "l": raise IRError("index into non-list")
      t = ["l", t[1][1:], t[2]] if len(t[1]) > 1 else t[2]
    else:
      if t[0] != "s": raise IRError("field of non-struct")
      t = dict((n, ft) for n, ft in t[2])[f]
  return t


def static_rw(m, ip, stmts):
  """static (over-approximate) sets of (key, bit) read and written by a statement list, computed from
  the IR only.  Variable bit indices / loop-variable slices count as the whole referenced range."""
  reads, writes = set(), set()

  def rng(ref):
    key, lo, hi = m.resolve(ip, ref)
    return {(key, b) for b in range(lo, hi)}

  def ex(e):
    k = e[0]
    if k == "sig": reads.update(rng(e[1]))
    elif k == "bit":
      if e[2][0] == "lit":
        key, lo, hi = m.resolve(ip, e[1]); reads.add((key, lo + e[2][1]))
      else:
        reads.update(rng(e[1])); ex(e[2])
    elif k == "slice_lv": reads.update(rng(e[1]))
    elif k == "lsel":
      # a literal index names one element; any other index may read every element of that dimension
      import itertools
      dims = e[2] if isinstance(e[2], list) else [e[2]]
      idxs = e[3] if isinstance(e[2], list) else [e[3]]
      choices = [[ie[1]] if ie[0] == "lit" else list(range(dm)) for dm, ie in zip(dims, idxs)]
      for combo in itertools.product(*choices):
        r = dict(e[1]); r["sig"] = r["sig"] + "".join(f"[{i}]" for i in combo)
        if len(e) > 5 and e[5]: r["fld"] = list(e[5])
        if len(e) > 4 and e[4] is not None: r["sl"] = list(e[4])
        reads.update(rng(r))
      for ie in idxs: ex(ie)
    elif k in ("const", "lit", "lv", "tmp", "tmpsl", "cvar"): pass
    elif k == "bin": ex(e[2]); ex(e[3])
    elif k in ("shl", "shr"): ex(e[1]); ex(e[2])
    elif k == "cmp": ex(e[2]); ex(e[3])
    elif k == "inv": ex(e[1])
    elif k == "concat":
      for x in e[1]: ex(x)
    elif k in ("zext", "sext", "trunc"): ex(e[1])
    elif k == "red": ex(e[2])
    elif k == "ifexp": ex(e[1]); ex(e[2]); ex(e[3])
    elif k == "arg": pass
    elif k == "fcall":
      for a in e[2]: ex(a)
      ex(m.func_def(ip, e[1])["ret"])
    elif k == "cast": ex(e[2])
    else: raise IRError(k)

  def st(ss):
    for s in ss:
      k = s[0]
      if k == "assign": writes.update(rng(s[1])); ex(s[2])
      elif k == "assign_bit":
        if s[2][0] == "lit":
          key, lo, hi = m.resolve(ip, s[1]); writes.add((key, lo + s[2][1]))
        else:
          writes.update(rng(s[1])); ex(s[2])
        ex(s[3])
      elif k == "assign_struct":
        writes.update(rng(s[1]))
        for x in s[3]: ex(x)
      elif k == "tmp": ex(s[2])
      elif k == "if": ex(s[1]); st(s[2]); st(s[3])
      elif k == "for": st(s[5])
      elif k == "call": st(m.func_stmts(ip, s[1]))
      else: raise IRError(k)
  st(stmts)
  return reads, writes


def conn_edges(m):
  """bit-level propagation edges src_bit -> dst_bit of every connection (explicit and implicit)"""
  edges = {}
  for ip, kind, p in m.comb_units():
    if kind != "conn": continue
    dst, src = p
    if isinstance(src, list): continue
    dk, dlo, dhi = m.resolve(ip, dst)
    sk, slo, shi = m.resolve(ip, src)
    for i in range(dhi - dlo):
      edges.setdefault((sk, slo + i), []).append((dk, dlo + i))
  return edges


def reach(bits, edges):
  seen = set(bits); work = list(bits)
  while work:
    b = work.pop()
    for n in edges.get(b, ()):
      if n not in seen:
        seen.add(n); work.append(n)
  return seen
