"""
Reference model of a byte-addressed memory with memory-message semantics -- pure Python,
does not import pymtl3 (E6, used by C18).

Written from the property text of C18 and the message layout documented in
pymtl3/stdlib/mem/MemMsg.py:

  * memory = array of bytes, all zero initially
  * a READ of n bytes at address a returns sum(mem[a+k] << 8k), i.e. little endian
  * a WRITE of n bytes stores the low n bytes of the data, little endian; higher data bytes
    are ignored
  * the `len` field has clog2(width_bytes) bits; value 0 means the full data width
    (4 bytes for 32-bit data), 1..width_bytes-1 are sub-word lengths
  * an atomic operation reads the old n-byte value, stores op(old, operand) truncated to n
    bytes and returns the OLD value.  MIN/MAX compare as two's complement numbers of 8n
    bits, MINU/MAXU as unsigned numbers
  * type codes: READ 0, WRITE 1, AMO_ADD 3, AMO_AND 4, AMO_OR 5, AMO_SWAP 6, AMO_MIN 7,
    AMO_MINU 8, AMO_MAX 9, AMO_MAXU 10, AMO_XOR 11
"""

READ = "rd"
WRITE = "wr"
AMOS = ("add", "and", "or", "swap", "min", "minu", "max", "maxu", "xor")

TYPE_CODE = {"rd": 0, "wr": 1, "add": 3, "and": 4, "or": 5, "swap": 6, "min": 7, "minu": 8,
             "max": 9, "maxu": 10, "xor": 11}
CODE_TYPE = {v: k for k, v in TYPE_CODE.items()}


def len_field(nbytes, width_bytes=4):
  """encoding of an access length in the message's len field"""
  assert 1 <= nbytes <= width_bytes
  return 0 if nbytes == width_bytes else nbytes


def len_bytes(field, width_bytes=4):
  """number of bytes a len field value stands for"""
  return width_bytes if field == 0 else field


def _signed(v, nbits):
  return v - (1 << nbits) if (v >> (nbits - 1)) & 1 else v


def amo_result(op, old, operand, nbytes):
  """value stored by atomic operation `op` (old, operand, result: unsigned ints of 8*nbytes bits)"""
  nbits = 8 * nbytes
  mask = (1 << nbits) - 1
  old &= mask
  operand &= mask
  if op == "add":  return (old + operand) & mask
  if op == "and":  return old & operand
  if op == "or":   return old | operand
  if op == "xor":  return old ^ operand
  if op == "swap": return operand
  if op == "minu": return old if old < operand else operand
  if op == "maxu": return old if old > operand else operand
  if op == "min":  return old if _signed(old, nbits) < _signed(operand, nbits) else operand
  if op == "max":  return old if _signed(old, nbits) > _signed(operand, nbits) else operand
  raise ValueError(f"unknown atomic operation {op!r}")


class RefMem:
  """Sequential memory: every call is applied completely before the next one."""

  def __init__(self, nbytes):
    self.nbytes = nbytes
    self.mem = [0] * nbytes
    # index (position in the applied sequence) of the last call that stored each byte, or None
    self.last_store = [None] * nbytes
    self.napplied = 0

  def _check(self, addr, n):
    if not (0 <= addr and addr + n <= self.nbytes and n >= 1):
      raise IndexError(f"access [{addr},{addr + n}) outside the {self.nbytes}-byte memory")

  def peek(self, addr, n):
    self._check(addr, n)
    v = 0
    for k in range(n):
      v |= self.mem[addr + k] << (8 * k)
    return v

  def _poke(self, addr, n, value):
    self._check(addr, n)
    for k in range(n):
      self.mem[addr + k] = (value >> (8 * k)) & 0xFF
      self.last_store[addr + k] = self.napplied

  def read(self, addr, n):
    v = self.peek(addr, n)
    self.napplied += 1
    return v

  def write(self, addr, n, value):
    self._poke(addr, n, value)
    self.napplied += 1

  def amo(self, op, addr, n, operand):
    old = self.peek(addr, n)
    self._poke(addr, n, amo_result(op, old, operand, n))
    self.napplied += 1
    return old

  def apply(self, typ, addr, n, data):
    """apply one request; returns the value a response has to carry (None for a write)"""
    if typ == READ:
      return self.read(addr, n)
    if typ == WRITE:
      self.write(addr, n, data)
      return None
    return self.amo(typ, addr, n, data)

  def image(self, addr, n):
    self._check(addr, n)
    return list(self.mem[addr:addr + n])

  def writers(self, addr, n):
    """distinct sequence indices of the calls that last stored the n bytes at addr"""
    self._check(addr, n)
    return {w for w in self.last_store[addr:addr + n] if w is not None}


def _selfcheck():
  """facts stated independently of the code above (hand-computed vectors)"""
  m = RefMem(64)
  m.write(8, 4, 0xdeadbeef)
  assert [m.read(8 + k, 1) for k in range(4)] == [0xef, 0xbe, 0xad, 0xde]
  assert m.read(8, 2) == 0xbeef and m.read(9, 2) == 0xadbe and m.read(10, 2) == 0xdead
  assert m.read(8, 3) == 0xadbeef and m.read(9, 3) == 0xdeadbe and m.read(8, 4) == 0xdeadbeef
  m.write(8, 2, 0xffffabcd); m.write(10, 2, 0xef01)
  assert m.read(8, 4) == 0xef01abcd
  m.write(9, 2, 0x2345)
  assert m.read(8, 4) == 0xef2345cd
  m.write(8, 3, 0x99cafe02)
  assert m.read(8, 4) == 0xefcafe02
  assert m.read(7, 1) == 0 and m.read(12, 1) == 0
  assert m.image(6, 8) == [0, 0, 0x02, 0xfe, 0xca, 0xef, 0, 0]
  m.write(16, 4, 0x01234567)
  assert m.amo("add", 16, 4, 0x12345678) == 0x01234567 and m.read(16, 4) == 0x13579bdf
  m.write(20, 4, 0x98765432)
  assert m.amo("and", 20, 4, 0x23456789) == 0x98765432 and m.read(20, 4) == 0x00444400
  m.write(24, 4, 0x22002200)
  assert m.amo("or", 24, 4, 0x01230123) == 0x22002200 and m.read(24, 4) == 0x23232323
  assert m.amo("swap", 24, 4, 0xdeadbeef) == 0x23232323 and m.read(24, 4) == 0xdeadbeef
  m.write(28, 4, 0x44556677)
  assert m.amo("min", 28, 4, 0xcafebabe) == 0x44556677 and m.read(28, 4) == 0xcafebabe   # negative
  assert m.amo("minu", 28, 4, 0x44556677) == 0xcafebabe and m.read(28, 4) == 0x44556677
  assert m.amo("max", 28, 4, 0xcafebabe) == 0x44556677 and m.read(28, 4) == 0x44556677
  assert m.amo("maxu", 28, 4, 0xcafebabe) == 0x44556677 and m.read(28, 4) == 0xcafebabe
  assert m.amo("xor", 28, 4, 0xffffffff) == 0xcafebabe and m.read(28, 4) == 0x35014541
  m.write(32, 4, 0xffffffff)
  assert m.amo("add", 32, 4, 2) == 0xffffffff and m.read(32, 4) == 1 and m.read(36, 4) == 0
  assert m.amo("min", 32, 4, 0x80000000) == 1 and m.read(32, 4) == 0x80000000
  assert m.amo("max", 32, 4, 0x7fffffff) == 0x80000000 and m.read(32, 4) == 0x7fffffff
  assert len_field(4) == 0 and len_field(3) == 3 and len_bytes(0) == 4 and len_bytes(2) == 2
  assert sorted(TYPE_CODE.values()) == [0, 1, 3, 4, 5, 6, 7, 8, 9, 10, 11]
  m2 = RefMem(8)
  m2.write(0, 2, 0x1111); m2.write(2, 2, 0x2222)
  assert m2.writers(1, 2) == {0, 1} and m2.writers(4, 4) == set()
  try:
    m2.read(6, 4)
  except IndexError:
    pass
  else:
    raise AssertionError("out-of-range access accepted")
  return True
