"""
Reference model of a rotating-priority (round-robin) arbiter -- pure Python, no pymtl3.

Written from the property text of C19:

  * grants is zero when nothing is requested, otherwise exactly one bit, on a requesting input
  * the granted input is the first requester at or after the priority pointer (cyclically)
  * priority rotates to the input after the granted one whenever a grant occurs
    (enabled variant: only in cycles with the enable high)
  * reset restores priority to input 0
"""


class RoundRobinModel:

  def __init__(self, nreqs, has_en):
    assert nreqs >= 2
    self.n = nreqs
    self.has_en = has_en
    self.ptr = 0                      # index of the input with highest priority

  def reset(self):
    self.ptr = 0

  def grant_index(self, reqs):
    """index granted for request vector `reqs` (int bit mask) or None"""
    for k in range(self.n):
      i = (self.ptr + k) % self.n
      if (reqs >> i) & 1:
        return i
    return None

  def grants(self, reqs):
    g = self.grant_index(reqs)
    return 0 if g is None else (1 << g)

  def wraps(self, reqs):
    """True when the grant goes to an input *below* the pointer although the pointer is not 0,
    i.e. the search wrapped past input n-1."""
    g = self.grant_index(reqs)
    return g is not None and g < self.ptr

  def advances(self, reqs, en):
    return self.grant_index(reqs) is not None and (bool(en) or not self.has_en)

  def tick(self, reqs, en, rst):
    """clock edge with the inputs of this cycle"""
    if rst:
      self.ptr = 0
      return
    g = self.grant_index(reqs)
    if g is not None and (bool(en) or not self.has_en):
      self.ptr = (g + 1) % self.n

  def pointer_onehot(self):
    return 1 << self.ptr


class FairnessMonitor:
  """History property, judged on the *observed* grants only (does not use the pointer model):
  an input that requests continuously is granted within n advancing cycles, where an advancing
  cycle is one with a non-zero grant (and enable high for the enabled variant)."""

  def __init__(self, nreqs, has_en):
    self.n = nreqs
    self.has_en = has_en
    self.waited = [0] * nreqs        # advancing cycles seen while requesting and not granted

  def reset(self):
    self.waited = [0] * self.n

  def observe(self, reqs, en, rst, grants):
    """returns None or (input index, number of advancing cycles it has been passed over)"""
    if rst:
      # the pointer jumps back to 0: the bound restarts
      self.reset()
      return None
    adv = grants != 0 and (bool(en) or not self.has_en)
    bad = None
    for i in range(self.n):
      if not (reqs >> i) & 1:
        self.waited[i] = 0
      elif (grants >> i) & 1:
        self.waited[i] = 0
      elif adv:
        self.waited[i] += 1
        if self.waited[i] >= self.n and bad is None:
          # passed over in n advancing cycles => not granted within n granting cycles
          bad = (i, self.waited[i])
    return bad
