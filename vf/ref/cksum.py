"""
Reference checksum: the simplified Fletcher algorithm of the ChecksumFL
docstring with modulus 65536 (plain integers, no pymtl3).

  sum1 = (sum1 + data[i]) % 65536 ; sum2 = (sum2 + sum1) % 65536
  result = (sum2 << 16) | sum1
"""


def checksum(words):
  sum1 = 0
  sum2 = 0
  for w in words:
    if not 0 <= w <= 0xFFFF:
      raise ValueError(f"not a 16-bit word: {w}")
    sum1 = (sum1 + w) % 65536
    sum2 = (sum2 + sum1) % 65536
  return (sum2 << 16) | sum1


def pack128(words):
  """8 x 16-bit words -> 128-bit integer, word i in bits [16i, 16i+16)."""
  assert len(words) == 8
  v = 0
  for i, w in enumerate(words):
    v |= (w & 0xFFFF) << (16 * i)
  return v
