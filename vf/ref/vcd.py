"""E5 -- tokenising IEEE-1364 VCD reader (no pymtl3 import).

parse(text) -> {"vars": {hier_name: (width, code)}, "changes": {code: [(time, int_value)]},
                "init": {code: int_value}   # values dumped before the first #time
               }
hier_name = scope names joined by "." + "." + var name (as written in the file).
"""


class VCDError(Exception):
  pass


def parse(text):
  toks = text.split()
  i = 0
  n = len(toks)
  scope = []
  vars_ = {}
  code_width = {}
  changes = {}
  init = {}
  time = None
  in_defs = True
  while i < n:
    t = toks[i]
    if in_defs:
      if t == "$scope":
        # $scope module NAME $end
        if toks[i + 3] != "$end": raise VCDError("malformed $scope")
        scope.append(toks[i + 2]); i += 4; continue
      if t == "$upscope":
        if not scope: raise VCDError("$upscope without scope")
        scope.pop(); i += 2; continue
      if t == "$var":
        # $var reg WIDTH CODE NAME [more name tokens] $end
        j = i + 1
        while toks[j] != "$end": j += 1
        fields = toks[i + 1:j]
        if len(fields) < 4: raise VCDError("malformed $var")
        width = int(fields[1]); code = fields[2]; name = "".join(fields[3:])
        full = ".".join(scope + [name])
        if full in vars_: raise VCDError(f"duplicate $var {full}")
        if code in code_width and code_width[code] != width:
          raise VCDError(f"identifier code {code!r} used with widths {code_width[code]} and {width}")
        code_width[code] = width
        vars_[full] = (width, code)
        i = j + 1; continue
      if t == "$enddefinitions":
        in_defs = False
        if scope: raise VCDError("unclosed $scope")
        i += 2; continue
      if t in ("$date", "$version", "$timescale", "$comment"):
        while toks[i] != "$end": i += 1
        i += 1; continue
      raise VCDError(f"unexpected token {t!r} in definitions")
    # value change section
    if t[0] == "#":
      nt = int(t[1:])
      if time is not None and nt < time: raise VCDError("time goes backwards")
      time = nt; i += 1; continue
    if t in ("$dumpvars", "$end"):
      i += 1; continue
    if t[0] in "01xXzZ" :
      val, code = t[0], t[1:]
      if code not in code_width: raise VCDError(f"unknown identifier code {code!r}")
      if code_width[code] != 1: raise VCDError(f"scalar change for {code_width[code]}-bit var {code!r}")
      v = int(val) if val in "01" else None
      i += 1
    elif t[0] in "bB":
      bits = t[1:]
      code = toks[i + 1]
      if code not in code_width: raise VCDError(f"unknown identifier code {code!r}")
      if not bits or any(c not in "01xXzZ" for c in bits): raise VCDError(f"bad vector {t!r}")
      if len(bits) > code_width[code]: raise VCDError(f"vector wider than var {code!r}")
      v = int(bits, 2) if all(c in "01" for c in bits) else None
      i += 2
    else:
      raise VCDError(f"unexpected token {t!r}")
    if time is None:
      init[code] = v
    else:
      changes.setdefault(code, []).append((time, v))
  return {"vars": vars_, "changes": changes, "init": init}


def value_at(p, code, time):
  """value in force at `time` (last change at or before it; the pre-#0 section counts as -inf)"""
  v = p["init"].get(code)
  for t, x in p["changes"].get(code, []):
    if t <= time: v = x
    else: break
  return v
