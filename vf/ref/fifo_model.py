"""
FIFO_spec(kind, capacity) -- pure-Python reference for the library queues (C17).  No pymtl3.

Written from the property text:

  * messages delivered are exactly the messages accepted, in order
  * occupancy is exact and never exceeds the capacity
  * enqueue-ready  iff not full,   plus (pipe)   when full  iff a dequeue happens this cycle
  * dequeue-ready  iff not empty,  plus (bypass) when empty iff an enqueue happens this cycle

One cycle is resolved from two *offers*:

  enq_offer : the producer wants to hand over `msg` this cycle (en/rdy: it will raise en if it
              sees rdy; val/rdy: val is high)
  deq_offer : the consumer is willing to take a message this cycle (en/rdy callee: it will raise
              en if it sees rdy; en/rdy caller side and val/rdy: sink rdy is high)

and a transfer *fires* when the offer meets the corresponding ready.  The dependency order is
fixed by the kind (pipe: enqueue side looks at the dequeue; bypass: dequeue side looks at the
enqueue), so resolve() is not circular.
"""

NORMAL, PIPE, BYPASS = "normal", "pipe", "bypass"
KINDS = (NORMAL, PIPE, BYPASS)


class Resolved:
  __slots__ = ("enq_rdy", "deq_rdy", "enq_fire", "deq_fire", "deq_msg", "passthrough")

  def __repr__(self):
    return (f"enq_rdy={int(self.enq_rdy)} deq_rdy={int(self.deq_rdy)} enq_fire={int(self.enq_fire)} "
            f"deq_fire={int(self.deq_fire)} deq_msg={self.deq_msg!r}")


class FifoSpec:

  def __init__(self, kind, capacity):
    assert kind in KINDS and capacity >= 1
    self.kind = kind
    self.cap = capacity
    self.items = []
    self.n_enq = 0            # accepted since reset
    self.n_deq = 0            # delivered since reset
    self.accepted = []        # since construction, with epoch markers
    self.delivered = []

  # -- observers ----------------------------------------------------------------------
  @property
  def occ(self):
    return len(self.items)

  @property
  def head_idx(self):
    """abstract read pointer: deliveries modulo capacity (a bypassed message moves both the
    read and the write pointer, as in a register-file implementation)"""
    return self.n_deq % self.cap

  @property
  def tail_idx(self):
    return self.n_enq % self.cap

  def full(self):
    return len(self.items) >= self.cap

  def empty(self):
    return not self.items

  # -- one cycle -----------------------------------------------------------------------
  def deq_rdy_state_only(self):
    return not self.empty()

  def enq_rdy_state_only(self):
    return not self.full()

  def resolve(self, enq_offer, msg, deq_offer):
    r = Resolved()
    full, empty = self.full(), self.empty()
    if self.kind == PIPE:
      r.deq_rdy = not empty
      r.deq_fire = bool(deq_offer) and r.deq_rdy
      r.enq_rdy = (not full) or r.deq_fire
      r.enq_fire = bool(enq_offer) and r.enq_rdy
    elif self.kind == BYPASS:
      r.enq_rdy = not full
      r.enq_fire = bool(enq_offer) and r.enq_rdy
      r.deq_rdy = (not empty) or r.enq_fire
      r.deq_fire = bool(deq_offer) and r.deq_rdy
    else:
      r.enq_rdy = not full
      r.deq_rdy = not empty
      r.enq_fire = bool(enq_offer) and r.enq_rdy
      r.deq_fire = bool(deq_offer) and r.deq_rdy
    r.passthrough = r.deq_fire and empty          # only possible for bypass
    if not r.deq_rdy:
      r.deq_msg = None
    elif not empty:
      r.deq_msg = self.items[0]
    else:
      r.deq_msg = msg                             # bypass: the message being enqueued
    return r

  def commit(self, r, msg):
    """clock edge for a resolved cycle"""
    if r.deq_fire:
      out = self.items.pop(0) if self.items else msg
      self.delivered.append(out)
      self.n_deq += 1
    if r.enq_fire:
      self.accepted.append(msg)
      self.n_enq += 1
      if not r.passthrough:
        self.items.append(msg)
    assert len(self.items) <= self.cap

  def reset(self):
    # whatever was stored is dropped: the stored items are the last `occ` accepted ones, so the
    # books are balanced by forgetting them on the accepted side too
    if self.items:
      del self.accepted[len(self.accepted) - len(self.items):]
    self.items = []
    self.n_enq = 0
    self.n_deq = 0

  def books_balance(self):
    """delivered + still stored == accepted, in order"""
    return self.delivered + self.items == self.accepted
