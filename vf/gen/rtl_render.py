"""E1 -- renders the RTL design IR (see vf.ref.rtl_eval) to pymtl3 source and loads it as a real
module (pymtl3 needs inspect.getsource on update blocks)."""
import hashlib
import importlib.util
import itertools
import os
import random
import sys

_uid = itertools.count()


def bits_t(n):
  return f"Bits{n}" if n < 256 else f"mk_bits({n})"


class Renderer:
  def __init__(self, design, variant=None):
    """variant: None or {"seed": int, "conn_style": bool, "perm_stmts": bool, "perm_blocks": bool}"""
    self.d = design
    self.v = variant or {}
    self.rng = random.Random(self.v.get("seed", 0))
    self.structs = {}            # repr(desc) -> name
    self.struct_src = []

  # -- types ----------------------------------------------------------------
  def tname(self, t):
    if t[0] == "b": return bits_t(t[1])
    if t[0] == "s":
      key = repr(t)
      if key not in self.structs:
        fields = []
        for fname, ft in t[2]:
          fields.append((fname, self.tann(ft)))
        name = f"T{len(self.structs)}_{t[1]}"
        self.structs[key] = name
        body = "\n".join(f"  {fn}: {ann}" for fn, ann in fields)
        self.struct_src.append(f"@bitstruct\nclass {name}:\n{body}\n")
      return self.structs[key]
    raise ValueError(t)

  def tann(self, t):
    if t[0] == "l":
      e = self.tname(t[2])
      for d in reversed(t[1]):
        e = "[ " + ", ".join([e] * d) + " ]"
      return e
    return self.tname(t)

  # -- refs / exprs ----------------------------------------------------------
  def ref(self, r):
    s = "s"
    if r["inst"]: s += "." + r["inst"]
    s += "." + r["sig"]
    for f in r["fld"]:
      s += f"[{f}]" if isinstance(f, int) else f".{f}"
    if r["sl"] is not None:
      s += f"[{r['sl'][0]}:{r['sl'][1]}]"
    return s

  def ex(self, e):
    k = e[0]
    if k == "sig": return self.ref(e[1])
    if k == "const": return f"{bits_t(e[1])}({e[2]})" if e[1] < 256 else f"mk_bits({e[1]})({e[2]})"
    if k == "lit": return str(e[1]) if e[1] >= 0 else f"(-{-e[1]})"
    if k == "cast": return f"{bits_t(e[1])}( {self.ex(e[2])} )"
    if k == "lv": return e[1]
    if k == "cvar": return e[1]
    if k == "lsel":
      r = dict(e[1]); base = r["sig"]
      pre = "s" + ("." + r["inst"] if r["inst"] else "") + "." + base
      idxs = e[3] if isinstance(e[2], list) else [e[3]]
      out = pre + "".join(f"[{self.ex(ie)}]" for ie in idxs)
      if len(e) > 5 and e[5]:
        for f in e[5]: out += f"[{f}]" if isinstance(f, int) else f".{f}"
      if len(e) > 4 and e[4] is not None: out += f"[{e[4][0]}:{e[4][1]}]"
      return out
    if k == "tmp": return e[1]
    if k == "tmpsl": return f"{e[1]}[{e[2]}:{e[3]}]"
    if k == "bin": return f"({self.ex(e[2])} {e[1]} {self.ex(e[3])})"
    if k == "shl": return f"({self.ex(e[1])} << {self.ex(e[2])})"
    if k == "shr": return f"({self.ex(e[1])} >> {self.ex(e[2])})"
    if k == "cmp": return f"({self.ex(e[2])} {e[1]} {self.ex(e[3])})"
    if k == "inv": return f"(~{self.ex(e[1])})"
    if k == "bit": return f"{self.ref(e[1])}[{self.ex(e[2])}]"
    if k == "slice_lv":
      lo = f"{e[2]}*{e[3]}+{e[4]}" if e[3] != 1 or e[4] != 0 else e[2]
      return f"{self.ref(e[1])}[{lo}:{lo}+{e[5]}]"
    if k == "vslice": return f"{self.ref(e[1])}[ {self.ex(e[2])} : {self.ex(e[3])} + {e[4]} ]"
    if k == "concat": return "concat( " + ", ".join(self.ex(x) for x in e[1]) + " )"
    if k in ("zext", "sext", "trunc"): return f"{k}( {self.ex(e[1])}, {e[2]} )"
    if k == "red": return f"reduce_{e[1]}( {self.ex(e[2])} )"
    if k == "ifexp": return f"({self.ex(e[2])} if {self.ex(e[1])} else {self.ex(e[3])})"
    if k == "arg": return e[1]
    if k == "fcall": return f"{e[1]}( " + ", ".join(self.ex(a) for a in e[2]) + " )"
    raise ValueError(k)

  def stmts(self, ss, kind, ind):
    op = "<<=" if kind == "ff" else "@="
    out = []
    pad = "  " * ind
    for s in ss:
      k = s[0]
      if k == "assign": out.append(f"{pad}{self.ref(s[1])} {op} {self.ex(s[2])}")
      elif k == "assign_bit": out.append(f"{pad}{self.ref(s[1])}[{self.ex(s[2])}] {op} {self.ex(s[3])}")
      elif k == "assign_struct":
        out.append(f"{pad}{self.ref(s[1])} {op} {self.tname(s[2])}( " + ", ".join(self.ex(x) for x in s[3]) + " )")
      elif k == "tmp": out.append(f"{pad}{s[1]} = {self.ex(s[2])}")
      elif k == "if":
        out.append(f"{pad}if {self.ex(s[1])}:")
        out.extend(self.stmts(s[2], kind, ind + 1) or [pad + "  pass"])
        if s[3]:
          if len(s[3]) == 1 and s[3][0][0] == "if":
            sub = self.stmts(s[3], kind, ind)
            sub[0] = pad + "el" + sub[0].lstrip()
            out.extend(sub)
          else:
            out.append(f"{pad}else:")
            out.extend(self.stmts(s[3], kind, ind + 1))
      elif k == "for":
        rng = f"range({s[3]})" if s[2] == 0 and s[4] == 1 else (
              f"range({s[2]}, {s[3]})" if s[4] == 1 else f"range({s[2]}, {s[3]}, {s[4]})")
        out.append(f"{pad}for {s[1]} in {rng}:")
        out.extend(self.stmts(s[5], kind, ind + 1) or [pad + "  pass"])
      elif k == "call":
        out.append(f"{pad}{s[1]}()")
      else:
        raise ValueError(k)
    return out

  # -- classes ----------------------------------------------------------------
  def cls(self, cname, c, tag):
    L = [f"class {cname}_{tag}( Component ):", "  def construct( s ):"]
    decl = []
    for cname_, cval in c.get("consts", []):
      decl.append(f"    {cname_} = {cval if isinstance(cval, int) else self.ex(cval)}")
    seen_lists = set()

    def declare(n, ctor):
      if "[" in n:
        base = n.split("[", 1)[0]
        if base in seen_lists: return
        seen_lists.add(base)
        tuples = [tuple(int(x) for x in y.split("[", 1)[1].rstrip("]").split("][")) for y in names_all
                  if "[" in y and y.split("[", 1)[0] == base]
        dims = [max(t_[k] for t_ in tuples) + 1 for k in range(len(tuples[0]))]
        e = ctor
        for dm in reversed(dims): e = f"[ {e} for _ in range({dm}) ]"
        decl.append(f"    s.{base} = {e}")
      else:
        decl.append(f"    s.{n} = {ctor}")
    names_all = [n for n, d, t in c["ports"] if "." not in n] + [n for n, t in c["wires"]]
    for n, d, t in c["ports"]:
      if "." in n: continue                       # member of an interface instance, declared by the interface class
      declare(n, f"{'InPort' if d == 'in' else 'OutPort'}( {self.tname(t)} )")
    done_ifc = set()
    for attr, iname in c.get("ifc_insts", []):
      if "[" in attr:                               # element of a (1-D / 2-D) list of interfaces: declared once
        base = attr.split("[", 1)[0]
        if base in done_ifc: continue
        done_ifc.add(base)
        tuples = [tuple(int(x) for x in a.split("[", 1)[1].rstrip("]").split("][")) for a, _ in c["ifc_insts"]
                  if a.split("[", 1)[0] == base]
        dims = [max(t_[k] for t_ in tuples) + 1 for k in range(len(tuples[0]))]
        e = f"{iname}_{tag}()"
        for dm in reversed(dims): e = f"[ {e} for _ in range({dm}) ]"
        decl.append(f"    s.{base} = {e}")
        continue
      decl.append(f"    s.{attr} = {iname}_{tag}()")
    for n, t in c["wires"]:
      declare(n, f"Wire( {self.tname(t)} )")
    for iname, ccn in c["children"]:
      if "[" in iname:                              # element of a list of components: declared once, at element 0
        base, i = iname[:-1].split("[")
        if i == "0":
          elems = sorted((int(x[:-1].split("[")[1]), y) for x, y in c["children"] if x.startswith(base + "["))
          if len({y for _, y in elems}) == 1:
            decl.append(f"    s.{base} = [ {ccn}_{tag}() for _ in range({len(elems)}) ]")
          else:                                     # elements of different classes (C15: one element replaced)
            decl.append(f"    s.{base} = [ " + ", ".join(f"{y}_{tag}()" for _, y in elems) + " ]")
        continue
      decl.append(f"    s.{iname} = {ccn}_{tag}()")
    decl.extend("    " + l for l in c.get("raw_decl", []))
    L.extend(decl)
    body = []                                   # list of statement groups (each a list of lines)
    for dst, src in c["conns"]:
      a = self.ref(dst)
      b = (str(src[2]) if self.rng.random() < 0.5 or src[1] >= 256 else f"{bits_t(src[1])}({src[2]})") \
          if isinstance(src, list) else self.ref(src)
      style = self.rng.randrange(4) if self.v.get("conn_style") else 0
      if isinstance(src, list):
        body.append([f"    {a} //= {b}" if style % 2 == 0 else f"    connect( {a}, {b} )"])
      elif style == 0: body.append([f"    {a} //= {b}"])
      elif style == 1: body.append([f"    {b} //= {a}"])
      elif style == 2: body.append([f"    connect( {a}, {b} )"])
      else: body.append([f"    connect( {b}, {a} )"])
    blocks = []
    for b in c["blocks"]:
      if b.get("lambda"):
        st_ = b["stmts"][0]
        blocks.append([f"    {self.ref(st_[1])} //= lambda: {self.ex(st_[2])}"])
        continue
      deco = {"comb": "@update", "ff": "@update_ff", "once": "@update_once"}[b["kind"]]
      lines = [f"    {deco}", f"    def {b['name']}():"] + (self.stmts(b["stmts"], b["kind"], 3) or ["      pass"])
      blocks.append(lines)
    for f in c.get("funcs", []):                 # helper functions may be defined before or after their callers
      if "ret" in f:                                 # value-returning helper with parameters
        lines = ["    @s.func", f"    def {f['name']}( " + ", ".join(pn for pn, _ in f["params"]) + " ):", f"      return {self.ex(f['ret'])}"]
      else:
        lines = ["    @s.func", f"    def {f['name']}():"] + (self.stmts(f["stmts"], "comb", 3) or ["      pass"])
      blocks.insert(self.rng.randrange(len(blocks) + 1) if self.v.get("perm_blocks") else (0 if f.get("early") else len(blocks)), lines)
    if self.v.get("perm_stmts"):
      self.rng.shuffle(body)
    if self.v.get("perm_blocks"):
      self.rng.shuffle(blocks)
    groups = body + blocks + [["    " + l for l in g] for g in c.get("raw_groups", [])]
    if self.v.get("interleave"):
      self.rng.shuffle(groups)
    for g in groups: L.extend(g)
    for a, b in c.get("uu", []):
      L.append(f"    s.add_constraints( U({a}) < U({b}) )")
    for k, sig, op, b in c.get("rdwr", []):
      L.append(f"    s.add_constraints( {k}(s.{sig}) {op} U({b}) )")
    if len(L) == 2: L.append("    pass")
    return "\n".join(L) + "\n"

  def source(self, tag):
    order = []
    seen = set()

    def visit(cn):
      if cn in seen: return
      seen.add(cn)
      for _, ccn in self.d["classes"][cn]["children"]: visit(ccn)
      order.append(cn)
    visit(self.d["top"])
    cls_src = [self.cls(cn, self.d["classes"][cn], tag) for cn in order]
    ifc_src = self.ifc_source(tag)
    return "from pymtl3 import *\n\n" + "\n".join(self.struct_src) + "\n" + "\n".join(ifc_src) + "\n" + "\n".join(cls_src)

  def ifc_source(self, tag):
    ifc_src = []
    for iname, members in sorted(self.d.get("ifcs", {}).items()):
      L = [f"class {iname}_{tag}( Interface ):", "  def construct( s ):"]
      done = set()
      for mn, md, mt in members:
        ctor = f"{'InPort' if md == 'in' else 'OutPort'}( {self.tname(mt)} )"
        if "[" in mn:                                  # a member that is a list of ports
          base = mn.split("[", 1)[0]
          if base in done: continue
          done.add(base)
          n = sum(1 for m2, _, _ in members if m2.split("[", 1)[0] == base and "[" in m2)
          L.append(f"    s.{base} = [ {ctor} for _ in range({n}) ]")
        else:
          L.append(f"    s.{mn} = {ctor}")
      ifc_src.append("\n".join(L) + "\n")
    return ifc_src


def load_design(design, variant=None, scratch=None, tag=None, modname=None):
  """renders, writes to a fresh file, imports; returns (TopClass, source, cleanup()).  tag/modname can be fixed
  by the caller (C13 needs byte-identical class names and file paths across processes)"""
  tag = tag or f"g{next(_uid)}"
  src = Renderer(design, variant).source(tag)
  scratch = scratch or os.getcwd()
  modname = modname or f"vfgen_{os.getpid()}_{tag}_{hashlib.sha1(src.encode()).hexdigest()[:8]}"
  path = os.path.join(scratch, modname + ".py")
  with open(path, "w") as f:
    f.write(src)
  spec = importlib.util.spec_from_file_location(modname, path)
  mod = importlib.util.module_from_spec(spec)
  sys.modules[modname] = mod

  def cleanup():
    sys.modules.pop(modname, None)
    try: os.remove(path)
    except OSError: pass
    import linecache
    linecache.cache.pop(path, None)

  try:
    spec.loader.exec_module(mod)
  except BaseException:
    cleanup()
    raise
  return getattr(mod, f"{design['top']}_{tag}"), src, cleanup
