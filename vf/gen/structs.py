"""E3 -- bitstruct type shapes: strategy, independent layout spec, builder of real classes.

Type descriptions (JSON-able):
  ["b", n]                      Bits of width n
  ["s", name, [[fname, T]...]]  struct
  ["l", [d0, d1, ..], T]        list (T is "b" or "s")
"""
import itertools

from hypothesis import strategies as st

FIELD_POOL = ["a", "b", "c", "x", "y", "z", "s", "self", "other", "cls", "memo", "foo", "bar",
              "data", "val", "en", "opaque", "f0", "f1", "f_2", "A", "B_", "msg", "len_", "src", "dst"]

_counter = itertools.count()


def leaf_width(t):
  if t[0] == "b": return t[1]
  if t[0] == "s": return sum(leaf_width(f[1]) for f in t[2])
  n = 1
  for d in t[1]: n *= d
  return n * leaf_width(t[2])


def layout(t, path=()):
  """ordered MSB-first list of (path, width).  First field most significant; list element 0
  least significant within its field.  path elements: str (field) or int (index)."""
  if t[0] == "b":
    return [(path, t[1])]
  if t[0] == "s":
    out = []
    for fname, ft in t[2]:
      out.extend(layout(ft, path + (fname,)))
    return out
  dims, et = t[1], t[2]
  out = []

  def rec(k, p):
    if k == len(dims):
      out.extend(layout(et, p)); return
    for i in reversed(range(dims[k])):
      rec(k + 1, p + (i,))
  rec(0, path)
  return out


def positions(t):
  """{path: (lo, hi)} bit positions in the packed value"""
  lay = layout(t)
  tot = sum(w for _, w in lay)
  pos = {}
  hi = tot
  for p, w in lay:
    pos[p] = (hi - w, hi)
    hi -= w
  assert hi == 0
  return pos, tot


def pack(t, leaves):
  """leaves: {path: int} -> packed int"""
  pos, _ = positions(t)
  v = 0
  for p, (lo, hi) in pos.items():
    v |= (leaves[p] & ((1 << (hi - lo)) - 1)) << lo
  return v


def unpack(t, value):
  pos, _ = positions(t)
  return {p: (value >> lo) & ((1 << (hi - lo)) - 1) for p, (lo, hi) in pos.items()}


@st.composite
def struct_types(draw, max_depth=3, budget=1023, top=True):
  """draws a struct description with total width <= budget (>=1)."""
  nf = draw(st.integers(1, 5 if top else 3))
  names = draw(st.lists(st.sampled_from(FIELD_POOL), min_size=nf, max_size=nf, unique=True))
  fields = []
  left = budget
  for i, fname in enumerate(names):
    remaining_fields = len(names) - i - 1
    avail = left - remaining_fields           # keep >=1 bit for each remaining field
    if avail < 1: break
    kind = draw(st.sampled_from(["b", "b", "b", "s", "l", "l"] if max_depth > 1 else ["b", "b", "l"]))
    if kind == "b" or avail < 2:
      if fields and fields[-1][1][0] == "b" and draw(st.integers(0, 2)) == 0 and fields[-1][1][1] <= avail:
        w = fields[-1][1][1]                 # adjacent equal widths
      else:
        w = draw(st.one_of(st.integers(1, min(avail, 16)), st.integers(1, min(avail, 70)),
                           st.integers(1, min(avail, 300))))
      t = ["b", w]
    elif kind == "s":
      t = draw(struct_types(max_depth=max_depth - 1, budget=min(avail, 200), top=False))
    else:
      nd = draw(st.integers(1, 3))
      dims = [draw(st.integers(1, 3)) for _ in range(nd)]
      cnt = 1
      for d in dims: cnt *= d
      per = avail // cnt
      if per < 1:
        dims = [1]; cnt = 1; per = avail
      if max_depth > 1 and draw(st.booleans()) and per >= 2:
        et = draw(struct_types(max_depth=max_depth - 1, budget=min(per, 60), top=False))
      else:
        et = ["b", draw(st.integers(1, min(per, 24)))]
      t = ["l", dims, et]
    fields.append([fname, t])
    left -= leaf_width(t)
  if not fields:
    fields.append([names[0], ["b", 1]])
  sname = "S" + draw(st.sampled_from(["t", "Msg", "Pkt", "T", "x"])) + str(draw(st.integers(0, 3)))
  return ["s", sname, fields]


def build_class(t, how, cache=None):
  """returns the pymtl3 class for struct description t. how: 'deco' | 'mk' | 'mix'"""
  from pymtl3.datatypes import mk_bits, bitstruct, mk_bitstruct
  if cache is None: cache = {}

  def ty(x, depth):
    if x[0] == "b": return mk_bits(x[1])
    if x[0] == "s": return cls_of(x, depth + 1)
    e = ty(x[2], depth)
    for d in reversed(x[1]):
      e = [e for _ in range(d)]
    return e

  def cls_of(x, depth):
    key = repr(x)
    if key in cache: return cache[key]
    annos = {fname: ty(ft, depth) for fname, ft in x[2]}
    use_mk = how == "mk" or (how == "mix" and depth % 2 == 1)
    if use_mk:
      c = mk_bitstruct(x[1], annos)
    else:
      c = bitstruct(type(x[1], (), {"__annotations__": annos}))
    cache[key] = c
    return c

  return cls_of(t, 0)


def make_value(t, cls_cache, how, leaves, path=()):
  """builds an instance of struct t through its constructor from {path: int}"""
  from pymtl3.datatypes import mk_bits
  if t[0] == "b":
    return mk_bits(t[1])(leaves[path])
  if t[0] == "s":
    cls = build_class(t, how, cls_cache)
    kwargs = {fname: make_value(ft, cls_cache, how, leaves, path + (fname,)) for fname, ft in t[2]}
    return cls(**kwargs)
  dims = t[1]

  def rec(k, p):
    if k == len(dims):
      return make_value(t[2], cls_cache, how, leaves, p)
    return [rec(k + 1, p + (i,)) for i in range(dims[k])]
  return rec(0, path)


def get_leaf(obj, path):
  for p in path:
    obj = obj[p] if isinstance(p, int) else getattr(obj, p)
  return obj


def features(t):
  """shape features used by the non-trivial rule"""
  f = {"nested": False, "list": False, "adjacent_equal": False, "list_of_struct": False,
       "one_elem_list": False, "multi_dim": False}

  def rec(x, depth):
    if x[0] == "s":
      if depth > 0: f["nested"] = True
      prev = None
      for _, ft in x[2]:
        w = leaf_width(ft)
        if prev == w: f["adjacent_equal"] = True
        prev = w
        rec(ft, depth + 1)
    elif x[0] == "l":
      f["list"] = True
      if x[2][0] == "s": f["list_of_struct"] = True
      if 1 in x[1]: f["one_elem_list"] = True
      if len(x[1]) > 1: f["multi_dim"] = True
      rec(x[2], depth + 1)
  rec(t, 0)
  return f
