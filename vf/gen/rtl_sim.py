"""pymtl3 side of E1: build a simulator for an IR design under a chosen schedule and observe it."""
import random
import sys

from vf.gen.rtl_render import load_design
from vf.ref.rtl_eval import type_width

PASSES = ["default", "simple", "heutopo", "mamba", "unroll"]


def sig_of(obj, name):
  """attribute access that understands list elements and interface members:
  'xs[2]' -> obj.xs[2];  'recv.msg' -> obj.recv.msg;  'ifcs[1].val' -> obj.ifcs[1].val"""
  v = obj
  for part in name.split("."):
    if "[" in part:
      base, rest = part.split("[", 1)
      v = getattr(v, base)
      for idx in rest.rstrip("]").split("]["):
        v = v[int(idx)]
    else:
      v = getattr(v, part)
  return v

_patched = False


def patch_pymtl3():
  """harness-side: SimpleSchedulePass.dump_dag calls graphviz with view=True (needs xdg-open)
  right before raising UpblkCyclicError; neutralise it (DESIGN.md section 0)."""
  global _patched
  if _patched: return
  import pymtl3.passes.sim.SimpleSchedulePass as ssp
  ssp.dump_dag = lambda *a, **k: None
  try:
    import pymtl3.passes.sim.DynamicSchedulePass as dsp
    if hasattr(dsp, "dump_dag"): dsp.dump_dag = lambda *a, **k: None
  except Exception:
    pass
  _patched = True


class Sim:
  def __init__(self, design, variant=None, scratch=None):
    patch_pymtl3()
    self.design = design
    self.Top, self.src, self._cleanup = load_design(design, variant, scratch)
    self.top = None
    self.names = None

  def close(self):
    self._cleanup()

  def elaborate(self):
    self.top = self.Top()
    self.top.elaborate()
    return self.top

  def apply(self, which, rseed=0, force_order=None, force_ff=None):
    """which in PASSES, or 'forced' (GenDAG + SimpleSchedule, then the given orders)"""
    from pymtl3.passes.PassGroups import DefaultPassGroup
    from pymtl3.passes.sim.GenDAGPass import GenDAGPass
    from pymtl3.passes.sim.SimpleSchedulePass import SimpleSchedulePass
    from pymtl3.passes.sim.PrepareSimPass import PrepareSimPass
    from pymtl3.passes.sim.WrapGreenletPass import WrapGreenletPass
    from pymtl3.passes.mamba.PassGroups import HeuTopoUnrollSim, Mamba2020, UnrollSim
    top = self.top
    random.seed(rseed)
    if which == "default":
      top.apply(DefaultPassGroup())
    elif which in ("simple", "forced"):
      GenDAGPass()(top)
      WrapGreenletPass()(top)
      SimpleSchedulePass()(top)
      if which == "forced":
        if force_order is not None:
          top._sched.update_schedule[:] = force_order(top)
        if force_ff is not None:
          top._sched.schedule_ff[:] = force_ff(top)
      PrepareSimPass(print_line_trace=False)(top)
    elif which == "heutopo":
      top.apply(HeuTopoUnrollSim(print_line_trace=False))
    elif which == "mamba":
      top.apply(Mamba2020(print_line_trace=False))
    elif which == "unroll":
      top.apply(UnrollSim(print_line_trace=False))
    else:
      raise ValueError(which)
    self._collect_names()

  def _collect_names(self):
    from vf.ref.rtl_eval import Model
    m = Model(self.design)
    self.names = sorted((ip, n) for (ip, n) in m.sigtype)

  def set_inputs(self, cyc):
    top = self.top
    from pymtl3.datatypes import Bits
    for p, v in cyc["in"].items():
      cur = sig_of(top, p)
      cur @= Bits(cur.nbits, v)
    top.reset @= cyc.get("reset", 0)

  def snapshot(self):
    top = self.top
    out = {}
    for ip, n in self.names:
      obj = top
      if ip:
        obj = sig_of(obj, ip)
      v = sig_of(obj, n)
      out[(ip + "." if ip else "") + n] = int(v.to_bits())
    return out

  def eval_comb(self):
    self.top.sim_eval_combinational()

  def tick(self):
    self.top.sim_tick()


def run_reference(design, seq):
  """-> list of (after_eval snapshot, after_tick snapshot) per cycle"""
  from vf.ref.rtl_eval import Model
  m = Model(design)
  out = []
  for cyc in seq:
    for p, v in cyc["in"].items(): m.set_input(p, v)
    m.state[("", "reset")] = cyc.get("reset", 0)
    m.eval_comb(check_confluence=True)
    a = m.snapshot()
    m.tick()
    out.append((a, m.snapshot()))
  return out


def diff(a, b):
  return sorted(k for k in a if a[k] != b.get(k))


class OrderRecorder:
  """records the order in which update blocks / net blocks are *called*, with sys.setprofile on their
  code objects (sees through meta blocks, unrolled ticks and SCC wrappers).  Labels:
  ("blk", inst_path, block_name) for user blocks, ("net", generated_name) for net blocks."""

  def __init__(self, top, on_call=None):
    self.top = top
    self.on_call = on_call
    self.by_code = {}            # id(code object): equal-looking code objects compare equal, identity does not
    self._keep = list(top._dag.final_upblks)
    self.net_labels = []
    ub = top.get_all_update_blocks()
    for f in top._dag.final_upblks:
      if f in ub:
        host = top.get_update_block_host_component(f)
        ip = repr(host)[2:]                       # "s.c1.g2" -> "c1.g2", "s" -> ""
        name = f.__name__
        pre = "_lambda__" + repr(host).replace(".", "_").replace("[", "_").replace("]", "_") + "_"
        if name.startswith(pre): name = "lam:" + name[len(pre):]      # s.x //= lambda: ...
        label = ("blk", ip, name)
        self.by_code.setdefault(id(f.__code__), []).append((self._cells(f), label))
      else:
        # two nets driven by equal constants get the same generated name: number them
        k = sum(1 for n in self.net_labels if n[1] == f.__name__)
        lab = ("net", f.__name__, k)
        self.net_labels.append(lab)
        self.by_code.setdefault(id(f.__code__), []).append((None, lab))
    self.calls = []

  @staticmethod
  def _cells(f):
    out = []
    for c in (f.__closure__ or ()):
      try: out.append(id(c.cell_contents))
      except ValueError: out.append(id(None))
    return tuple(out)

  def _prof(self, frame, event, arg):
    if event != "call": return
    ent = self.by_code.get(id(frame.f_code))
    if ent is None: return
    if len(ent) == 1:
      label = ent[0][1]
    else:
      # instances of one class share the code object of a block: the closure cells (s, helper functions, closure
      # constants) tell them apart
      loc = frame.f_locals
      cells = tuple(id(loc.get(n)) for n in frame.f_code.co_freevars)
      label = None
      for fc, lab in ent:
        if fc == cells: label = lab; break
      if label is None: label = ("?", frame.f_code.co_name)
    self.calls.append(label)
    if self.on_call is not None:
      self.on_call(label)

  def record(self, fn):
    self.calls = []
    sys.setprofile(self._prof)
    try:
      fn()
    finally:
      sys.setprofile(None)
    return list(self.calls)
