"""E1 -- Hypothesis strategy producing legal (acyclic, single-driver) RTL designs in the IR of
vf.ref.rtl_eval.  Designs are built forward: a component body is a sequence of steps, each step may
only read what earlier steps made available, so the combinational signal graph is acyclic by
construction; every bit of every driven signal has exactly one driver."""
from hypothesis import strategies as st

from vf.gen import structs as S
from vf.ref.rtl_eval import type_width, field_type

DEFAULT_OPTS = {
  "max_depth": 2,            # hierarchy levels below top
  "max_steps": 6,
  "max_width": 16,
  "structs": True,
  "ff": True,
  "wide": True,              # occasionally widths > 64
  "loops": True,
  "tmps": True,
  "reset": True,
  "uu": False,               # explicit U(a) < U(b) between independent blocks
  "min_comb": 1,
  "lists": True,             # lists of signals (ports / wires), read with constant and variable indices
  "lambdas": True,           # s.x //= lambda: expr
  "cvars": True,             # closure constants used inside blocks
  "sloppy": 0,               # C10: probability (in 1/16) that a sub-expression is requested with a wrong width
  "translatable": False,     # stay inside what the RTLIR type checker / translators accept
  "no_sext_compound": False, # exclusion switch for the known finding "sext of a compound operand"
  "index_chain": 1,          # 0..7: how often (in 1/8) a component gets an explicit "list[ sel ] + slice/field" chain
  "ifcs": False,             # interface instances (bundles of in/out ports declared by an Interface class)
  "conn_bias": 0,            # 0..3: extra weight for driving a new part through a connection instead of a block
  "struct_bias": 0,          # 0..4: how often a new signal gets a struct type
  "min_depth": 0,
  "child_regs": True,        # a parent's update_ff block may write an input port of a child (s.child.in_ <<= ...)
  "funcs": 1,                # 0..7: how often (in 1/8) a comb block delegates some of its targets to (nested) @s.func helpers
  "deep_rel": 1,             # 0..7: how often (in 1/8) a signal step builds a "driven only far below, read in between" chain
  "child_lists": True,       # lists of child components: s.cl3 = [ C1() for _ in range(n) ]
  "child_bias": 0,           # extra weight for instantiating children in a step
  "ff_heavy": False,         # C07: many registers, one ff block per register, ff blocks read each other's registers
}


def W(draw, opts, lo=1):
  k = draw(st.integers(0, 19))
  if k == 0 and opts["wide"]: return draw(st.sampled_from([31, 32, 33, 63, 64, 65, 70, 100, 128, 255]))
  if k <= 3: return draw(st.integers(lo, max(lo, 4)))
  return draw(st.integers(lo, max(lo, opts["max_width"])))


def small_struct(draw):
  t = draw(S.struct_types(max_depth=2, budget=40))
  return t


def mkref(sig, inst="", fld=(), sl=None):
  return {"inst": inst, "sig": sig, "fld": list(fld), "sl": list(sl) if sl is not None else None}


def leaves_of_type(t, prefix=()):
  """all (fld path, type) sub-objects that are Bits leaves"""
  return [(list(p), ["b", w]) for p, w in S.layout(t, tuple(prefix))]


class ClassBuilder:
  def __init__(self, draw, name, opts, pool, depth):
    self.draw, self.name, self.opts, self.pool, self.depth = draw, name, opts, pool, depth
    self.ports, self.wires, self.children, self.conns, self.blocks, self.uu = [], [], [], [], [], []
    self.avail = []            # [(ref-without-slice, type)] readable sources (whole signals / child outs)
    self.n = 0
    self.child_regs = []       # [(ref, type)] input ports of children that this component writes in an update_ff block
    self.funcs = []            # [{"name", "stmts", "early"}] helper functions (@s.func) called from comb blocks
    self.ifc_insts = []        # [[attr, IfcName]]
    self.ifc_pool = {}         # IfcName -> [[member, dir, type]]
    self.lists = []            # [(inst, base, count, elemtype)] lists of signals readable with an index
    self.consts = []           # [[name, int | ["const", w, v]]] closure constants
    self.regs = []
    self.comb_out = False      # some out port depends combinationally on an in port
    self.tmpn = 0
    self.block_reads = {}      # block name -> set of signal names (for independent-block uu constraints)

  def fresh(self, p):
    self.n += 1
    return f"{p}{self.n}"

  def any_type(self, allow_struct=True):
    d = self.draw
    if allow_struct and self.opts["structs"] is True and d(st.integers(0, 4)) <= self.opts.get("struct_bias", 0):
      return small_struct(d)
    return ["b", W(d, self.opts)]

  # ---------------------------------------------------------------- leaves
  def bits_sources(self):
    """[(ref, width)] every Bits-typed leaf reachable from avail (whole Bits signals, struct leaves)"""
    out = []
    for ref, t in self.avail:
      if t[0] == "b": out.append((ref, t[1]))
      else:
        for fld, lt in leaves_of_type(t):
          r = dict(ref); r["fld"] = fld
          out.append((r, lt[1]))
    return out

  def lsel_leaf(self, w, env):
    """element of a (1-D or 2-D) list of signals selected by constants, a loop variable or signals; a Bits leaf of
    it (field path for struct elements), optionally sliced, adapted to width w"""
    d = self.draw
    inst, base, dims, t = d(st.sampled_from(self.lists))
    dl = dims if isinstance(dims, list) else [dims]
    idxs = []
    for cnt in dl:
      iw = cnt.bit_length() - 1
      if (1 << iw) == cnt and iw >= 1 and d(st.integers(0, 2)) > 0:
        plain = [r for r, sw in self.bits_sources() if sw == iw]
        if plain and d(st.booleans()):
          idxs.append(["sig", d(st.sampled_from(plain))])           # a bare signal as index: s.xs[s.sel]...
        else:
          idxs.append(self.expr(iw, dict(env, no_lsel=True), 3))
      elif env.get("lv") and any(c <= cnt for _, c in env["lv"]) and d(st.booleans()):
        idxs.append(["lv", [n for n, c in env["lv"] if c <= cnt][0]])
      else:
        idxs.append(["lit", d(st.integers(0, cnt - 1))])
    fld = None
    ew = None
    if t[0] == "s":
      fld, lt = d(st.sampled_from(leaves_of_type(t)))
      ew = lt[1]
    else:
      ew = t[1]
    head = ["lsel", mkref(base, inst=inst), dims, idxs if isinstance(dims, list) else idxs[0]]
    if ew > w and d(st.booleans()):
      lo = d(st.integers(0, ew - w))
      return head + [[lo, lo + w], fld]
    e = head + [None, fld]
    if ew == w: return e
    if ew > w: return ["trunc", e, w]
    return [d(st.sampled_from(["zext", "sext"])), e, w]

  def leaf(self, w, env):
    d = self.draw
    if self.lists and not env.get("no_lsel") and d(st.integers(0, 7)) == 0:
      return self.lsel_leaf(w, env)
    srcs = self.bits_sources()
    tmps = [(n, tw) for n, tw in env.get("tmps", [])]
    k = d(st.integers(0, 9))
    if env.get("ff") and self.opts["ff_heavy"] and getattr(self, "regs", None) and k >= 4:
      regsrc = [(r, t[1]) for r, t in self.regs if t[0] == "b"]
      for r, t in self.regs:
        if t[0] == "s":
          for fld, lt in leaves_of_type(t):
            rr = dict(r); rr["fld"] = fld; regsrc.append((rr, lt[1]))
      if regsrc:
        ref, sw = d(st.sampled_from(regsrc))
        if sw == w: return ["sig", ref]
        if sw > w:
          lo = d(st.integers(0, sw - w)); r = dict(ref); r["sl"] = [lo, lo + w]
          return ["sig", r]
        return ["zext", ["sig", ref], w]
    if k == 0 or not (srcs or tmps):
      from vf.strategies import uvalue
      return ["const", w, d(uvalue(w))]
    if tmps and k == 1:
      n, tw = d(st.sampled_from(tmps))
      if tw == w: return ["tmp", n]
      if tw > w:
        lo = d(st.integers(0, tw - w))
        return ["tmpsl", n, lo, lo + w]
      return ["zext", ["tmp", n], w]
    if not srcs:
      from vf.strategies import uvalue
      return ["const", w, d(uvalue(w))]
    exact = [s for s in srcs if s[1] == w]
    if exact and d(st.integers(0, 2)) > 0:
      ref, _ = d(st.sampled_from(exact))
      return ["sig", ref]
    ref, sw = d(st.sampled_from(srcs))
    if sw == w: return ["sig", ref]
    if sw > w:
      lo = d(st.integers(0, sw - w))
      if d(st.integers(0, 5)) == 0:
        return ["trunc", ["sig", ref], w]
      r = dict(ref); r["sl"] = [lo, lo + w]
      return ["sig", r]
    return [d(st.sampled_from(["zext", "zext", "sext"])), ["sig", ref], w]

  def expr(self, w, env, depth=0):
    if self.opts["sloppy"] and depth > 0 and self.draw(st.integers(0, 15)) < self.opts["sloppy"]:
      w = max(1, w + self.draw(st.sampled_from([-3, -2, -1, 1, 2, 3, 8])))
    if self.opts["sloppy"] and self.draw(st.integers(0, 15)) == 0:
      return ["cast", w, self._expr(max(1, w + self.draw(st.sampled_from([-1, 0, 0, 1, 4]))), env, depth + 1)]
    e = self._expr(w, env, depth)
    if self.opts["translatable"] and e[0] not in ("const", "lit") and _is_constant(e):
      # the RTLIR type checker folds constant-only sub-expressions and re-sizes them to the minimal
      # width of the folded value (see C10 finding); keep translatable designs clear of that
      from vf.strategies import uvalue
      return ["const", w, self.draw(uvalue(w))]
    return e

  def vslice(self, w, env):
    """C10 only: a variable part-select x[ lo : hi + w ].  The checker may accept it only when lo and hi are the same
    expression (the width is then w); half of the time they are different elements of one list or different signals"""
    d = self.draw
    # the checker wants bounds of exactly clog2(n) bits for an n-bit operand, and w must fit in them: pick an operand
    # for which such index sources exist
    all_src = self.bits_sources()
    lists_all = [l for l in self.lists if l[3][0] == "b" and not isinstance(l[2], list) and l[2] >= 2]
    cands = []
    for ref, sw in all_src:
      if not (w < sw <= 64): continue
      iw = max(1, (sw - 1).bit_length())
      if w >= (1 << iw): continue
      ls = [l for l in lists_all if l[3][1] == iw]
      pl = [r for r, pw in all_src if pw == iw]
      if ls or pl: cands.append((ref, sw, ls, pl))
    if not cands: return None
    ref, sw, ls, pl = d(st.sampled_from(cands))
    if ls and (not pl or d(st.booleans())):
      inst, base, cnt, t = d(st.sampled_from(ls))
      i = d(st.integers(0, cnt - 1)); j = i if d(st.booleans()) else d(st.integers(0, cnt - 1))
      lo = ["lsel", mkref(base, inst=inst), cnt, ["lit", i], None, None]
      hi = ["lsel", mkref(base, inst=inst), cnt, ["lit", j], None, None]
    else:
      a = d(st.sampled_from(pl)); b = a if d(st.booleans()) else d(st.sampled_from(pl))
      lo, hi = ["sig", a], ["sig", b]
    return ["vslice", ref, lo, hi, w]

  def fcall(self, w, env):
    """a call of a value-returning helper function (@s.func with parameters): an existing one of this width - so that
    several blocks share one helper - or a new one whose body combines its argument with signals read inside"""
    d = self.draw
    have = [f for f in self.funcs if "ret" in f]
    if have and d(st.integers(0, 2)) > 0:
      f = d(st.sampled_from(have))
      call = ["fcall", f["name"], [self.expr(f["params"][0][1], dict(env, no_fcall=True), 2)]]
      rw = f["rw"]
      return call if rw == w else (["trunc", call, w] if rw > w else ["zext", call, w])
    else:
      pw = w if d(st.booleans()) else W(d, self.opts)
      arg = ["arg", "x"]
      a = arg if pw == w else (["trunc", arg, w] if pw > w else ["zext", arg, w])
      body_env = {"tmps": [], "lv": [], "maxd": 2, "no_fcall": True, "no_lsel": True}
      ret = ["bin", d(st.sampled_from(["+", "^", "|", "&", "-"])), a, self.sig_leaf(w, body_env)]
      if d(st.booleans()): ret = ["bin", d(st.sampled_from(["+", "^"])), ret, self.expr(w, body_env, 1)]
      f = {"name": self.fresh("fv"), "stmts": [], "params": [["x", pw]], "ret": ret, "rw": w, "early": d(st.booleans())}
      self.funcs.append(f)
    return ["fcall", f["name"], [self.expr(f["params"][0][1], dict(env, no_fcall=True), 2)]]

  def _expr(self, w, env, depth=0):
    d = self.draw
    maxd = env.get("maxd", 3)
    o_ = self.opts
    if o_["funcs"] and not o_["translatable"] and not o_["sloppy"] and not env.get("no_fcall") and not env.get("ff") \
       and w <= 64 and d(st.integers(0, 39)) < o_["funcs"]:
      return self.fcall(w, env)
    if self.opts["sloppy"] and w <= 8 and d(st.integers(0, 19)) == 0:
      e = self.vslice(w, env)
      if e is not None: return e
    if depth >= maxd or d(st.integers(0, 9)) < 3 + depth:
      return self.leaf(w, env)
    k = d(st.integers(0, 15))
    if w == 1 and env.get("lv") and k < 8 and d(st.integers(0, 2)) == 0:
      # compare something with the loop variable, given an explicit width by a BitsN( i ) cast
      lv, cnt = d(st.sampled_from(env["lv"]))
      kw = max(1, (cnt - 1).bit_length()) + d(st.integers(0, 2))
      return ["cmp", d(st.sampled_from(["==", "!=", "<", ">="])), self.expr(kw, env, depth + 1), ["cast", kw, ["lv", lv]]]
    if w == 1 and k < 6:
      j = d(st.integers(0, 3))
      if j == 0:
        kw = W(d, self.opts)
        a = self.expr(kw, env, depth + 1)
        b = self.lit_or_expr(kw, env, depth + 1)
        op = d(st.sampled_from(["==", "!=", "<", "<=", ">", ">="]))
        return ["cmp", op, a, b]
      if j == 1:
        kw = W(d, self.opts)
        return ["red", d(st.sampled_from(["and", "or", "xor"])), self.expr(kw, env, depth + 1)]
      if j == 2:
        srcs = [s for s in self.bits_sources() if s[1] >= 2]
        if srcs:
          ref, sw = d(st.sampled_from(srcs))
          if env.get("lv") and d(st.booleans()):
            lv, cnt = d(st.sampled_from(env["lv"]))
            if cnt <= sw: return ["bit", ref, ["lv", lv]]
          iw = (sw).bit_length() - 1              # 2**iw <= sw
          if iw >= 1 and d(st.booleans()) and (not self.opts["translatable"] or (1 << iw) == sw):
            # the RTLIR type checker wants exactly clog2(n) index bits: only possible without
            # out-of-range values when n is a power of two
            return ["bit", ref, self.expr(iw, env, depth + 1)]
          return ["bit", ref, ["lit", d(st.integers(0, sw - 1))]]
    if k < 9:
      op = d(st.sampled_from(["+", "-", "*", "&", "|", "^", "+", "-", "&", "|", "^"]))
      a = self.expr(w, env, depth + 1)
      b = self.lit_or_expr(w, env, depth + 1)
      if self.opts["sloppy"] and d(st.integers(0, 9)) == 0:
        # C10: a comparison result (one bit) as an operand next to an explicitly sized operand of any width
        kw = W(d, self.opts)
        c = ["cmp", d(st.sampled_from(["==", "!=", "<", ">="])), self.sig_leaf(kw, env), self.sig_leaf(kw, env)]
        a, b = (self.sig_leaf(w, env), c) if d(st.booleans()) else (c, self.sig_leaf(w, env))
      if self.opts["translatable"] and _is_constant(a) and _is_constant(b):
        b = self.sig_leaf(w, env)                  # constant folding would re-size a const-only expression
      if b[0] == "lit" and d(st.integers(0, 3)) == 0:
        a, b = b, a                                # reflected int operand
      return ["bin", op, a, b]
    if k == 9:
      a = self.expr(w, env, depth + 1)
      j = d(st.integers(0, 2))
      if j == 0: b = ["lit", d(st.integers(0, min((1 << w) - 1, w + 1)))]
      elif j == 1: b = ["const", w, d(st.integers(0, min((1 << w) - 1, w + 1)))]
      else: b = self.expr(w, env, depth + 1)
      return [d(st.sampled_from(["shl", "shr"])), a, b]
    if k == 10:
      return ["inv", self.expr(w, env, depth + 1)]
    if k == 11 and w >= 2:
      parts = []
      left = w
      while left > 0 and len(parts) < 4:
        pw = left if len(parts) == 3 else d(st.integers(1, left))
        parts.append(self.expr(pw, env, depth + 1)); left -= pw
      if left > 0: parts.append(self.expr(left, env, depth + 1))
      if len(parts) == 1: return parts[0]
      return ["concat", parts]
    if k == 12 and w >= 2:
      kw = d(st.integers(1, w))
      return [d(st.sampled_from(["zext", "sext"])), self.expr(kw, env, depth + 1), w]
    if k == 13 and w < 200:
      kw = d(st.integers(w, w + 8))
      return ["trunc", self.expr(kw, env, depth + 1), w]
    if k == 14:
      return ["ifexp", self.expr(1, env, depth + 1), self.expr(w, env, depth + 1), self.expr(w, env, depth + 1)]
    return self.leaf(w, env)

  def sig_leaf(self, w, env):
    """a leaf that is certainly not a constant (falls back to a constant only if nothing is readable)"""
    for _ in range(4):
      e = self.leaf(w, env)
      if not _is_constant(e): return e
    return e

  def cvar(self, w, as_int):
    """a closure constant (declared once per class) of the requested kind"""
    d = self.draw
    top = (1 << w) - 1
    name = f"K{len(self.consts) + 1}"
    if as_int:
      v = d(st.one_of(st.integers(0, min(top, 9)), st.integers(0, top)))
      self.consts.append([name, v]); return ["cvar", name, v]
    from vf.strategies import uvalue
    c = ["const", w, d(uvalue(w))]
    self.consts.append([name, c]); return ["cvar", name, c]

  def lit_or_expr(self, w, env, depth):
    d = self.draw
    if self.opts["cvars"] and not self.opts["sloppy"] and d(st.integers(0, 11)) == 0 and len(self.consts) < 4:
      return self.cvar(w, d(st.booleans()))
    if self.opts["sloppy"] and d(st.integers(0, 11)) == 0:
      # an if-expression whose two branches are bare ints of (possibly) different sizes, as an operand
      top = (1 << w) - 1
      small = ["lit", d(st.integers(0, min(top, 3)))]
      big = ["lit", d(st.sampled_from([top, top + 1, top + d(st.integers(1, 300)), d(st.integers(0, top))]))]
      if d(st.booleans()):
        # one bare-int branch and one explicitly sized branch whose width may differ from what the context asks for
        w2 = max(1, w + d(st.sampled_from([-3, -2, -1, 0, 0, 1, 2])))
        big = self.sig_leaf(w2, env)
      a, b = (small, big) if d(st.booleans()) else (big, small)
      return ["ifexp", self.expr(1, env, depth + 1), a, b]
    if self.opts["sloppy"] and d(st.integers(0, 5)) == 0:
      k = d(st.integers(0, 5))
      top = (1 << w) - 1
      v = [top + 1, top + d(st.integers(1, 300)), (1 << d(st.integers(1, 100))) + d(st.integers(-1, 1)),
           -d(st.integers(1, 9)), d(st.integers(0, top)), (1 << 53) + 1][k]
      return ["lit", v]
    if d(st.integers(0, 3)) == 0:
      top = (1 << w) - 1
      return ["lit", d(st.one_of(st.integers(0, min(top, 9)), st.integers(0, top), st.just(top)))]
    return self.expr(w, env, depth)

  # ---------------------------------------------------------------- statements
  def comb_block(self, targets, name):
    """targets: [(ref, width)]; every target is assigned on every path."""
    d = self.draw
    env = {"tmps": [], "lv": [], "maxd": 3}
    stmts = []
    if self.opts["tmps"] and d(st.integers(0, 3)) == 0:
      for _ in range(d(st.integers(1, 2))):
        self.tmpn += 1
        tn = f"t{self.tmpn}"
        tw = W(d, self.opts)
        stmts.append(["tmp", tn, self.nonlit(self.expr(tw, env))])
        env["tmps"].append((tn, tw))
    if self.opts["sloppy"] and d(st.integers(0, 7)) == 0:
      # C10: a temporary that is first given a bare int and then re-assigned from an explicitly sized source of exactly
      # the literal's minimal width; later uses see it at whatever width they ask for
      srcs = [s_ for s_ in self.bits_sources() if 1 <= s_[1] <= 12]
      if srcs:
        ref, sw = d(st.sampled_from(srcs))
        v = d(st.integers(1 << (sw - 1), (1 << sw) - 1)) if sw > 1 else 1
        self.tmpn += 1
        tn = f"t{self.tmpn}"
        stmts.append(["tmp", tn, ["lit", v]])
        # (straight-line only: behind an `if` the temporary could still hold the Python int at run time, whose
        # unbounded arithmetic has no width at all)
        stmts.append(["tmp", tn, ["sig", ref]])
        env["tmps"].append((tn, sw))
        if targets and d(st.booleans()):
          # ... and one use that asks for another width outright (must be rejected: the temporary is sw bits now)
          tref, tw_ = targets[0]
          if tw_ != sw and tref["sl"] is None:
            stmts.append(["assign", tref, ["tmp", tn]])
    for ref, w in targets:
      mode = d(st.integers(0, 7))
      if mode == 0 and self.opts["loops"] and ref["sl"] is None and 2 <= w <= 24:
        lv = "i"
        env2 = dict(env); env2["lv"] = [(lv, w)]
        body = [["assign_bit", ref, ["lv", lv], self.expr(1, env2, 1)]]
        if d(st.integers(0, 2)) == 0:
          stmts.append(["assign", ref, self.expr(w, env)])
        shape = d(st.integers(0, 7))
        if shape == 0 and not self.opts["translatable"]:
          stmts.append(["for", lv, w - 1, -1, -1, body])               # (the translators reject a negative end)
        elif shape == 1:
          # descending loop over bits w-1 .. 1, bit 0 separately
          stmts.append(["for", lv, w - 1, 0, -1, body])
          stmts.append(["assign_bit", ref, ["lit", 0], self.expr(1, env, 1)])
        elif shape == 2 and w >= 3:
          body2 = [["assign_bit", ref, ["lv", lv], self.expr(1, env2, 1)]]
          if d(st.integers(0, 7)) == 0:
            # even bits ascending, odd bits descending: range(odd, 0, -2) steps from 1 to -1 after its last
            # iteration (the emitted 'int unsigned' loop variable wraps: C03 known finding)
            stmts.append(["for", lv, 0, w, 2, body])
            stmts.append(["for", lv, w - 1 if (w - 1) % 2 else w - 2, 0, -2, body2])
          else:
            # odd bits ascending, even bits descending down to 2, bit 0 separately
            stmts.append(["for", lv, 1, w, 2, body])
            stmts.append(["for", lv, w - 1 if (w - 1) % 2 == 0 else w - 2, 0, -2, body2])
            stmts.append(["assign_bit", ref, ["lit", 0], self.expr(1, env, 1)])
        else:
          stmts.append(["for", lv, 0, w, 1, body])
      elif mode == 1 and d(st.booleans()):
        # an if-expression with a literal branch, directly on the right-hand side (the only place where a bare int
        # may come out of it)
        top = (1 << w) - 1
        lit = ["lit", d(st.integers(0, min(top, 9)))]
        e = self.expr(w, env, 1)
        stmts.append(["assign", ref, ["ifexp", self.expr(1, env, 1), lit, e] if d(st.booleans())
                      else ["ifexp", self.expr(1, env, 1), e, lit]])
      else:
        stmts.append(["assign", ref, self.expr(w, env)])
    # conditional re-assignment
    for _ in range(d(st.integers(0, 2))):
      if not targets: break
      sub = d(st.lists(st.sampled_from(targets), min_size=1, max_size=min(3, len(targets))))
      then = [["assign", r, self.expr(w, env)] for r, w in sub]
      els = []
      if d(st.booleans()):
        sub2 = d(st.lists(st.sampled_from(targets), min_size=1, max_size=min(2, len(targets))))
        els = [["assign", r, self.expr(w, env)] for r, w in sub2]
        if d(st.integers(0, 2)) == 0:
          els = [["if", self.expr(1, env), els, [["assign", r, self.expr(w, env)] for r, w in sub2[:1]]]]
      stmts.append(["if", self.expr(1, env), then, els])
    return {"name": name, "kind": "comb", "stmts": stmts}

  @staticmethod
  def nonlit(e):
    return e

  def ff_block(self, regs, name):
    d = self.draw
    env = {"tmps": [], "lv": [], "maxd": 2, "ff": True}
    stmts = []

    def asg(r, t):
      return ["assign", r, self.expr(type_width(t), env)] if t[0] == "b" else self.struct_assign(r, t, env)

    for ref, t in regs:
      mode = d(st.integers(0, 5))
      if mode <= 1: stmts.append(asg(ref, t))
      elif mode == 2: stmts.extend([asg(ref, t), asg(ref, t)])           # last assignment wins
      elif mode == 3: stmts.append(["if", self.expr(1, env), [asg(ref, t)], []])          # hold otherwise
      elif mode == 4: stmts.append(["if", self.expr(1, env), [asg(ref, t)], [asg(ref, t)]])
      else:
        stmts.append(asg(ref, t))
        stmts.append(["if", self.expr(1, env), [asg(ref, t)], []])
    if self.opts["reset"] and d(st.integers(0, 2)) == 0 and regs:
      rst = [["assign", r, ["const", type_width(t), 0]] for r, t in regs if t[0] == "b"]
      if rst:
        stmts = [["if", ["sig", mkref("reset")], rst, stmts]]
    return {"name": name, "kind": "ff", "stmts": stmts}

  def struct_sources(self, t):
    """refs of type t: whole available signals and nested struct-typed sub-objects of available signals"""
    out = []
    for r, at in self.avail:
      if at == t: out.append(r)
      if at[0] == "s":
        def rec(tt, path):
          for fname, ft in tt[2]:
            elems = [(path + [fname] + list(idx), ft[2]) for idx in _indices(ft[1])] if ft[0] == "l" else [(path + [fname], ft)]
            for pth, et in elems:
              if et == t:
                rr = dict(r); rr["fld"] = pth; out.append(rr)
              if et[0] == "s": rec(et, pth)
        rec(at, [])
    return out

  def struct_assign(self, ref, t, env):
    """whole-struct assignment from another struct source of the same type, or field-wise constructor"""
    d = self.draw
    same = [r for r in self.struct_sources(t) if r != ref]
    if same and d(st.booleans()):
      return ["assign", ref, ["sig", d(st.sampled_from(same))]]
    if all(ft[0] == "b" for _, ft in t[2]):
      return ["assign_struct", ref, t, [self.expr(ft[1], env) for _, ft in t[2]]]
    if same:
      return ["assign", ref, ["sig", d(st.sampled_from(same))]]
    return ["assign", ref, ["const", type_width(t), 0]] if False else ["assign", ref, self.expr(type_width(t), env)]

  # ---------------------------------------------------------------- steps
  def new_signal(self, t, force_wire=False):
    d = self.draw
    if force_wire or d(st.integers(0, 2)) == 0:
      n = self.fresh("w"); self.wires.append([n, t])
    else:
      n = self.fresh("out"); self.ports.append([n, "out", t])
    return n

  def parts_of(self, name, t):
    """splits a new signal into separately driven parts -> [(ref, width, parttype)]"""
    d = self.draw
    w = type_width(t)
    if t[0] == "s":
      if d(st.integers(0, 2)) == 0 and (not self.opts["translatable"] or _flat(t)):
        return [(mkref(name), w, t)]
      return self._split_struct(mkref(name), t)
    if w >= 2 and d(st.integers(0, 2)) == 0:
      cuts = sorted(set(d(st.lists(st.integers(1, w - 1), min_size=1, max_size=3))))
      bounds = [0] + cuts + [w]
      return [(mkref(name, sl=[a, b]), b - a, ["b", b - a]) for a, b in zip(bounds, bounds[1:])]
    return [(mkref(name), w, t)]

  def _split_struct(self, ref, t):
    """per-field parts of a struct-typed object; nested structs that cannot be assigned as a whole in
    translatable designs are split further"""
    parts = []
    for fname, ft in t[2]:
      base = list(ref["fld"]) + [fname]
      elems = [(base + list(idx), ft[2]) for idx in _indices(ft[1])] if ft[0] == "l" else [(base, ft)]
      for fld, et in elems:
        r = dict(ref); r["fld"] = fld
        if et[0] == "s" and (self.opts["translatable"] and not _flat(et) or self.draw(st.integers(0, 3)) == 0):
          parts.extend(self._split_struct(r, et))
        else:
          parts.append((r, type_width(et), et))
    return parts

  def drive(self, parts, blkname_prefix="up"):
    """creates drivers for parts: connections for some, one or two comb blocks for the rest"""
    d = self.draw
    blk_parts = []
    for ref, w, pt in parts:
      how = d(st.integers(0, 4))
      if how >= 2 and how - 2 < self.opts["conn_bias"]: how = 0
      if (self.opts["lambdas"] and how == 1 and pt[0] == "b" and not ref["inst"] and not ref["fld"] and
          ref["sl"] is None and "[" not in ref["sig"] and d(st.booleans())):
        e = self.expr(w, {"tmps": [], "lv": [], "maxd": 2, "no_fcall": True})
        if not _is_constant(e) and _mentions_signal(e):
          # (a lambda whose body never mentions `s` cannot be turned into an update block by pymtl3)
          self.blocks.append({"name": "lam:" + ref["sig"].replace(".", "_"), "kind": "comb", "lambda": True,
                              "stmts": [["assign", ref, e]]})
          continue
      if how == 0 and pt[0] == "b":
        # connection from an available Bits source of the same width (or a slice), or a constant
        cands = self.bits_sources()
        exact = [s for s in cands if s[1] == w]
        wider = [s for s in cands if s[1] > w]
        j = d(st.integers(0, 5))
        if exact and j <= 3:
          self.conns.append([ref, d(st.sampled_from(exact))[0]])
        elif wider and j <= 4:
          r, sw = d(st.sampled_from(wider))
          lo = d(st.integers(0, sw - w))
          r = dict(r); r["sl"] = [lo, lo + w]
          self.conns.append([ref, r])
        else:
          self.conns.append([ref, ["const", w, d(st.integers(0, (1 << w) - 1))]])
      elif how == 0 and pt[0] == "s":
        same = self.struct_sources(pt)
        if same: self.conns.append([ref, d(st.sampled_from(same))])
        else: blk_parts.append((ref, w, pt))
      else:
        blk_parts.append((ref, w, pt))
    if not blk_parts: return
    groups = [blk_parts]
    if len(blk_parts) >= 2 and d(st.booleans()):
      k = d(st.integers(1, len(blk_parts) - 1))
      groups = [blk_parts[:k], blk_parts[k:]]
    gnames = []
    for g in groups:
      name = self.fresh(blkname_prefix)
      gnames.append(name)
      targets = []
      pre = []
      for ref, w, pt in g:
        if pt[0] == "s":
          pre.append(self.struct_assign(ref, pt, {"tmps": [], "lv": [], "maxd": 2}))
        else:
          targets.append((ref, w))
      o = self.opts
      if targets and not o["translatable"] and not o["sloppy"] and d(st.integers(0, 7)) < o["funcs"]:
        # some targets are assigned by a helper function, possibly through a second helper that only calls it:
        # the block's reads and writes then come from the bodies of the functions it (transitively) calls
        k = d(st.integers(1, len(targets)))
        ftargets, targets = targets[:k], targets[k:]
        inner = self.fresh("fn")
        self.funcs.append({"name": inner, "stmts": self.comb_block(ftargets, inner)["stmts"], "early": d(st.booleans())})
        callee = inner
        for _ in range(d(st.integers(0, 2))):
          outer = self.fresh("fn")
          extra = []
          if targets and d(st.booleans()):
            extra = self.comb_block([targets.pop()], outer)["stmts"]
          body = [["call", callee]] + extra if d(st.booleans()) else extra + [["call", callee]]
          self.funcs.append({"name": outer, "stmts": body, "early": d(st.booleans())})
          callee = outer
        blk = self.comb_block(targets, name)
        blk["stmts"].insert(d(st.integers(0, len(blk["stmts"]))), ["call", callee])
      else:
        blk = self.comb_block(targets, name)
      blk["stmts"] = pre + blk["stmts"]
      self.blocks.append(blk)
    if self.opts["uu"]:
      # the two blocks of one step are independent of each other: either order is a legal constraint
      if len(gnames) == 2 and d(st.booleans()):
        self.uu.append(gnames if d(st.booleans()) else gnames[::-1])
      # a redundant constraint along the creation order (earlier comb block before a later one)
      prior = [b["name"] for b in self.blocks if b["kind"] == "comb" and b["name"] not in gnames and not b.get("lambda")]
      if prior and d(st.integers(0, 3)) == 0:
        self.uu.append([d(st.sampled_from(prior)), gnames[0]])

  def step_list(self):
    """a new 1-D or 2-D list of signals (Bits, sometimes a flat struct), every element driven separately"""
    d = self.draw
    dims = d(st.sampled_from([2, 2, 3, 4, [2, 2], [2, 3], [3, 2]]))
    t = ["b", W(d, self.opts)]
    if self.opts["structs"] is True and d(st.integers(0, 3)) == 0:
      cand = small_struct(d)
      if _flat(cand): t = cand
    kind = d(st.sampled_from(["w", "out"]))
    base = self.fresh("lw" if kind == "w" else "lout")
    parts = []
    names = []
    import itertools
    for idx in itertools.product(*[range(k) for k in (dims if isinstance(dims, list) else [dims])]):
      n = base + "".join(f"[{i}]" for i in idx)
      names.append(n)
      if kind == "w": self.wires.append([n, t])
      else: self.ports.append([n, "out", t])
      parts.extend(self.parts_of(n, t))
    self.drive(parts)
    for n in names: self.avail.append((mkref(n), t))
    self.lists.append(("", base, dims, t))

  def index_chain(self):
    """sel is computed by one block; another block reads list[ sel ] followed by a slice or a field"""
    d = self.draw
    cnt = d(st.sampled_from([2, 4]))
    iw = cnt.bit_length() - 1
    use_struct = self.opts["structs"] is True and d(st.booleans())
    t = ["s", "Elem", [["lo", ["b", 3]], ["hi", ["b", 5]]]] if use_struct else ["b", 8]
    base = self.fresh("lw")
    parts = []
    for i in range(cnt):
      n = f"{base}[{i}]"; self.wires.append([n, t]); parts.extend(self.parts_of(n, t))
    self.drive(parts)
    for i in range(cnt): self.avail.append((mkref(f"{base}[{i}]"), t))
    self.lists.append(("", base, cnt, t))
    sel = self.fresh("w"); self.wires.append([sel, ["b", iw]])
    env = {"tmps": [], "lv": [], "maxd": 2, "no_lsel": True}
    self.blocks.append({"name": self.fresh("up"), "kind": "comb", "stmts": [["assign", mkref(sel), self.expr(iw, env)]]})
    self.avail.append((mkref(sel), ["b", iw]))
    out = self.new_signal(["b", 3])
    if use_struct: e = ["lsel", mkref(base), cnt, ["sig", mkref(sel)], None, ["lo"]]
    else: e = ["lsel", mkref(base), cnt, ["sig", mkref(sel)], [2, 5], None]
    self.blocks.append({"name": self.fresh("up"), "kind": "comb", "stmts": [["assign", mkref(out), e]]})
    self.avail.append((mkref(out), ["b", 3]))

  def step_pack(self):
    """a Bits signal that receives the whole packed value of a struct-typed signal (s.flat @= s.in_)"""
    d = self.draw
    cands = []
    for r, at in self.avail:
      if at[0] == "s" and type_width(at) < 256: cands.append((r, at))
    if not cands: return False
    r, at = d(st.sampled_from(cands))
    w = type_width(at)
    n = self.new_signal(["b", w])
    self.blocks.append({"name": self.fresh("up"), "kind": "comb", "stmts": [["assign", mkref(n), ["sig", r]]]})
    self.avail.append((mkref(n), ["b", w]))
    return True

  def _conn_bits(self, ref, w):
    """drives a Bits part through a connection: an available source of that width, a slice of a wider one, or a constant"""
    d = self.draw
    cands = self.bits_sources()
    exact = [s_ for s_ in cands if s_[1] == w]
    wider = [s_ for s_ in cands if s_[1] > w]
    j = d(st.integers(0, 5))
    if exact and j <= 3:
      self.conns.append([ref, d(st.sampled_from(exact))[0]])
    elif wider and j <= 4:
      r, sw = d(st.sampled_from(wider))
      lo = d(st.integers(0, sw - w))
      r = dict(r); r["sl"] = [lo, lo + w]
      self.conns.append([ref, r])
    else:
      self.conns.append([ref, ["const", w, d(st.integers(0, (1 << w) - 1))]])

  def step_deep_relative(self):
    """a signal whose only drivers are nets that end two or more levels below it (fields of a nested struct field,
    slices of a struct field), while an intermediate level (the nested struct / the field) feeds another net as its
    writer: the intermediate object is a writer only because relatives below it are driven"""
    d = self.draw
    wa, wb, wr = d(st.integers(2, 6)), d(st.integers(1, 4)), d(st.integers(1, 4))
    inner = ["s", "DI", [["a", ["b", wa]], ["b", ["b", wb]]]]
    outer = ["s", "DO", [["p", inner], ["r", ["b", wr]]] if d(st.booleans()) else [["r", ["b", wr]], ["p", inner]]]
    y = self.new_signal(outer, force_wire=d(st.booleans()))
    variant = d(st.sampled_from(["struct_mid", "bits_mid", "both", "whole_then_part", "whole_then_part"]))
    k = d(st.integers(1, wa - 1))
    if variant == "whole_then_part":
      # one block assigns the whole signal and then overrides a deep part; another deep part (a sibling two or more
      # levels down) feeds a net: it is that net's writer through the fully written top-level ancestor, although the
      # ancestor in between is only partially written
      env = {"tmps": [], "lv": [], "maxd": 2}
      stmts = [["assign", mkref(y), self.expr(type_width(outer), env)]]
      shape = d(st.integers(0, 2))
      if shape == 0:
        stmts.append(["assign", mkref(y, fld=["p", "b"]), self.expr(wb, env)]); member = (mkref(y, fld=["p", "a"]), wa)
      elif shape == 1:
        stmts.append(["assign", mkref(y, fld=["p", "a"], sl=[k, wa]), self.expr(wa - k, env)]); member = (mkref(y, fld=["p", "a"], sl=[0, k]), k)
      else:
        stmts.append(["assign", mkref(y, fld=["p", "a"]), self.expr(wa, env)]); member = (mkref(y, fld=["p", "b"]), wb)
      if d(st.booleans()):
        stmts.append(["if", self.expr(1, env), [["assign", mkref(y, fld=["r"]), self.expr(wr, env)]], []])
      self.blocks.append({"name": self.fresh("up"), "kind": "comb", "stmts": stmts})
      z = self.new_signal(["b", member[1]])
      self.conns.append([mkref(z), member[0]])
      self.avail.append((mkref(y), outer)); self.avail.append((mkref(z), ["b", member[1]]))
      return
    if variant == "struct_mid":
      leaves = [(mkref(y, fld=["p", "a"]), wa), (mkref(y, fld=["p", "b"]), wb)]
      if d(st.booleans()):
        leaves = [(mkref(y, fld=["p", "a"], sl=[0, k]), k), (mkref(y, fld=["p", "a"], sl=[k, wa]), wa - k), leaves[1]]
      mids = [(mkref(y, fld=["p"]), inner)]
      rest = []
    else:
      leaves = [(mkref(y, fld=["p", "a"], sl=[0, k]), k), (mkref(y, fld=["p", "a"], sl=[k, wa]), wa - k)]
      mids = [(mkref(y, fld=["p", "a"]), ["b", wa])]
      if variant == "both":
        leaves.append((mkref(y, fld=["p", "b"]), wb))
        mids.append((mkref(y, fld=["p"]), inner))
        rest = []
      else:
        rest = [(mkref(y, fld=["p", "b"]), wb, ["b", wb])]
    for ref, w in leaves: self._conn_bits(ref, w)
    rest.append((mkref(y, fld=["r"]), wr, ["b", wr]))
    self.drive(rest)
    new = []
    for mref, mt in mids:
      z = self.new_signal(mt)
      self.conns.append([mkref(z), mref])
      new.append((mkref(z), mt))
    self.avail.append((mkref(y), outer))
    self.avail.extend(new)

  def step_signals(self):
    d = self.draw
    if self.opts["structs"] is True and not self.opts["sloppy"] and not self.opts["translatable"] and \
       d(st.integers(0, 7)) < self.opts["deep_rel"]:
      return self.step_deep_relative()
    if self.opts["structs"] and not self.opts["sloppy"] and d(st.integers(0, 7)) == 0 and self.step_pack():
      return
    if self.opts["lists"] and d(st.integers(0, 5)) == 0:
      return self.step_list()
    new = []
    allparts = []
    for _ in range(d(st.integers(1, 2))):
      t = self.any_type()
      n = self.new_signal(t)
      new.append((n, t))
      allparts.extend(self.parts_of(n, t))
    self.drive(allparts)
    for n, t in new:
      self.avail.append((mkref(n), t))

  def step_child(self):
    d = self.draw
    if self.depth <= 0 or not self.pool: return self.step_signals()
    cname = d(st.sampled_from(sorted(self.pool)))
    c = self.pool[cname]
    if self.opts["child_lists"] and d(st.integers(0, 3)) == 0:
      # s.cl5 = [ C1() for _ in range(n) ]: instances named cl5[0], cl5[1], ...
      base = self.fresh("cl")
      for i in range(d(st.integers(2, 3))):
        self._one_child(f"{base}[{i}]", cname, c)
      return
    self._one_child(self.fresh("c"), cname, c)

  def _one_child(self, iname, cname, c):
    d = self.draw
    self.children.append([iname, cname])
    parts = []
    for n, dr, t in c["ports"]:
      if dr == "in":
        if self.opts["ff"] and self.opts["child_regs"] and "[" not in n and "." not in n and d(st.integers(0, 5)) == 0 and \
           (t[0] == "b" or not self.opts["translatable"] or _flat(t)):
          self.child_regs.append((mkref(n, inst=iname), t))       # s.child.in_ <<= ... in one of the parent's ff blocks
          continue
        parts.extend(self._child_in_parts(iname, n, t))
    self.drive(parts, "upc")
    groups = {}
    for n, dr, t in c["ports"]:
      if dr == "out":
        self.avail.append((mkref(n, inst=iname), t))
        if "[" in n and "." not in n: groups.setdefault(n.split("[", 1)[0], []).append((n, t))
    for base, nts in groups.items():
      tuples = [tuple(int(x) for x in n.split("[", 1)[1].rstrip("]").split("][")) for n, _ in nts]
      dims = [max(t_[k] for t_ in tuples) + 1 for k in range(len(tuples[0]))]
      self.lists.append((iname, base, dims if len(dims) > 1 else dims[0], nts[0][1]))

  def _child_in_parts(self, iname, n, t):
    d = self.draw
    w = type_width(t)
    if t[0] == "b" and w >= 2 and d(st.integers(0, 4)) == 0:
      k = d(st.integers(1, w - 1))
      return [(mkref(n, inst=iname, sl=[0, k]), k, ["b", k]), (mkref(n, inst=iname, sl=[k, w]), w - k, ["b", w - k])]
    return [(mkref(n, inst=iname), w, t)]

  def build(self, is_top):
    d = self.draw
    o = self.opts
    # inputs
    for _ in range(d(st.integers(1, 3))):
      n = self.fresh("in"); t = self.any_type()
      if o["structs"] == "top_in_only" and is_top and d(st.integers(0, 1)) == 0:
        t = small_struct(d)                        # struct types only on top-level input ports
      self.ports.append([n, "in", t]); self.avail.append((mkref(n), t))
    if o["lists"] and d(st.integers(0, 4)) == 0:
      dims = d(st.sampled_from([2, 3, 4, [2, 2], [2, 3]])); t = ["b", W(d, o)]
      base = self.fresh("lin")
      import itertools
      for idx in itertools.product(*[range(k) for k in (dims if isinstance(dims, list) else [dims])]):
        n = base + "".join(f"[{i}]" for i in idx)
        self.ports.append([n, "in", t]); self.avail.append((mkref(n), t))
      self.lists.append(("", base, dims, t))
    pending_ifc_outs = []
    if o["ifcs"] and self.ifc_pool and d(st.integers(0, 2)) == 0:
      for _ in range(d(st.integers(1, 2))):
        iname = d(st.sampled_from(sorted(self.ifc_pool)))
        base = self.fresh("ifc")
        # a single interface, or a 1-D / 2-D list of interfaces: s.ifc3 = [ [ Ifc() for _ in range(2) ] for _ in range(2) ]
        dims = d(st.sampled_from([None, None, None, [2], [3], [2, 2], [1, 2], [2, 3]])) if o["lists"] else None
        for idx in (_indices(dims) if dims else [()]):
          attr = base + "".join(f"[{i}]" for i in idx)
          self.ifc_insts.append([attr, iname])
          for mn, md, mt in self.ifc_pool[iname]:
            n = f"{attr}.{mn}"
            self.ports.append([n, md, mt])
            if md == "in": self.avail.append((mkref(n), mt))
            else: pending_ifc_outs.append((n, mt))
    if o["reset"] and d(st.integers(0, 3)) == 0:
      self.avail.append((mkref("reset"), ["b", 1]))
    # registers (available from the start)
    regs = []
    if o["ff"]:
      for _ in range(d(st.integers(1, 5)) if o["ff_heavy"] else d(st.integers(0, 3))):
        t = self.any_type()
        if o["translatable"] and t[0] == "s" and not _flat(t): t = ["b", type_width(t)]
        n = self.new_signal(t)
        regs.append((mkref(n), t)); self.avail.append((mkref(n), t))
    nsteps = d(st.integers(o["min_comb"], o["max_steps"]))
    for _ in range(nsteps):
      if d(st.integers(0, 3)) <= o["child_bias"]: self.step_child()
      else: self.step_signals()
    if o["lists"] and not o["sloppy"] and d(st.integers(0, 7)) < o["index_chain"]:
      self.index_chain()
    for n, mt in pending_ifc_outs:                 # output members of the component's own interfaces
      self.drive(self.parts_of(n, mt))
      self.avail.append((mkref(n), mt))
    # ff blocks, created last so they may read everything
    self.regs = regs
    regs = regs + self.child_regs
    if regs:
      k = d(st.integers(1, min(3, len(regs))))
      if o["ff_heavy"] and d(st.integers(0, 3)) > 0: k = min(4, len(regs))
      groups = [regs[i::k] for i in range(k)]
      for g in groups:
        self.blocks.append(self.ff_block(g, self.fresh("ff")))
    if not any(p[1] == "out" for p in self.ports):
      t = ["b", W(d, o)]
      n = self.fresh("out"); self.ports.append([n, "out", t])
      self.drive([(mkref(n), type_width(t), t)])
    return {"ports": self.ports, "wires": self.wires, "children": self.children,
            "conns": self.conns, "blocks": self.blocks, "uu": self.uu, "consts": self.consts,
            "ifc_insts": self.ifc_insts, "funcs": self.funcs}


def _mentions_signal(e):
  if isinstance(e, dict): return "sig" in e
  if isinstance(e, list): return any(_mentions_signal(x) for x in e)
  return False


def _flat(t):
  return t[0] == "s" and all(ft[0] == "b" for _, ft in t[2])


def _is_constant(e):
  k = e[0]
  if k in ("const", "lit", "cvar"): return True
  if k in ("sig", "tmp", "tmpsl", "lv", "bit", "slice_lv", "lsel", "vslice", "fcall", "arg"): return False
  if k == "bin": return _is_constant(e[2]) and _is_constant(e[3])
  if k in ("shl", "shr"): return _is_constant(e[1]) and _is_constant(e[2])
  if k == "cmp": return _is_constant(e[2]) and _is_constant(e[3])
  if k in ("inv", "zext", "sext", "trunc"): return _is_constant(e[1])
  if k == "red": return _is_constant(e[2])
  if k == "concat": return all(_is_constant(x) for x in e[1])
  if k == "ifexp": return _is_constant(e[1]) and _is_constant(e[2]) and _is_constant(e[3])
  return False


def build_variant(draw, name, ports, opts, pool, depth, rdwr=False, once=False):
  """a class with exactly the given port list (same names/types/directions) and freshly drawn internals"""
  cb = ClassBuilder(draw, name, opts, pool, depth)
  d = draw
  cb.n = 100                                   # keep internal names apart from the port names
  for n, dr, t in ports:
    cb.ports.append([n, dr, t])
    if dr == "in": cb.avail.append((mkref(n), t))
  if opts["reset"] and d(st.integers(0, 3)) == 0:
    cb.avail.append((mkref("reset"), ["b", 1]))
  outs = [(n, t) for n, dr, t in ports if dr == "out"]
  regs = []
  reg_outs = set()
  if opts["ff"]:
    for n, t in outs:
      if d(st.integers(0, 3)) == 0:
        regs.append((mkref(n), t)); cb.avail.append((mkref(n), t)); reg_outs.add(n)
    for _ in range(d(st.integers(0, 2))):
      t = cb.any_type()
      n = cb.new_signal(t, force_wire=True)
      regs.append((mkref(n), t)); cb.avail.append((mkref(n), t))
  for _ in range(d(st.integers(0, opts["max_steps"]))):
    if d(st.integers(0, 3)) == 0 and depth > 0 and pool: cb.step_child()
    else:
      # internal wires only
      t = cb.any_type()
      n = cb.new_signal(t, force_wire=True)
      cb.drive(cb.parts_of(n, t))
      cb.avail.append((mkref(n), t))
  for n, t in outs:
    if n in reg_outs: continue
    cb.drive(cb.parts_of(n, t))
  cb.regs = regs
  regs = regs + cb.child_regs
  if regs:
    k = d(st.integers(1, min(3, len(regs))))
    for g in [regs[i::k] for i in range(k)]:
      cb.blocks.append(cb.ff_block(g, cb.fresh("ff")))
  cls = {"ports": cb.ports, "wires": cb.wires, "children": cb.children, "conns": cb.conns,
         "blocks": cb.blocks, "uu": cb.uu, "rdwr": [], "consts": cb.consts, "funcs": cb.funcs}
  combs = [b for b in cls["blocks"] if b["kind"] == "comb" and not b.get("lambda")]
  if rdwr and combs:
    # semantically neutral value constraints: WR(x) < U(b) for a block b that reads x, U(a) < RD(x) for a writer a
    from vf.ref.rtl_eval import Model
    for b in combs:
      reads = []
      def walk(x):
        if isinstance(x, dict) and "sig" in x:
          if x["inst"] == "" and not x["fld"] and x["sl"] is None: reads.append(x["sig"])
        elif isinstance(x, list):
          for y in x: walk(y)
      walk([s_[2:] if s_[0] in ("assign", "assign_bit", "assign_struct") else s_ for s_ in b["stmts"]])
      written_elsewhere = {w["sig"] for b2 in combs if b2 is not b for s_ in b2["stmts"]
                           if s_[0] == "assign" and s_[1]["inst"] == "" and not s_[1]["fld"] and s_[1]["sl"] is None
                           for w in [s_[1]]}
      for sig in sorted(set(reads) & written_elsewhere):
        if d(st.booleans()): cls["rdwr"].append(["WR", sig, "<", b["name"]])
        break
  if once and combs and d(st.booleans()):
    d(st.sampled_from(combs))["kind"] = "once"
  return cls


def _indices(dims):
  import itertools
  return itertools.product(*[range(k) for k in dims])


@st.composite
def designs(draw, **kw):
  opts = dict(DEFAULT_OPTS); opts.update(kw)
  pool = {}
  classes = {}
  ifc_pool = {}
  if opts["ifcs"]:
    for k in range(draw(st.integers(1, 2))):
      members = []
      for j in range(draw(st.integers(1, 3))):
        t = ["b", W(draw, opts)]
        if opts["structs"] is True and draw(st.integers(0, 3)) == 0: t = small_struct(draw)
        mname = draw(st.sampled_from(["msg", "val", "rdy", "en", "ret", "data"])) + str(j)
        mdir = draw(st.sampled_from(["in", "out"]))
        if opts["lists"] and draw(st.integers(0, 3)) == 0:
          # the member is a list of ports: s.msg1 = [ InPort( T ) for _ in range(n) ] (n differs from the usual list
          # lengths of interfaces, so that swapped dimensions show)
          for i in range(draw(st.sampled_from([2, 3, 3, 4]))):
            members.append([f"{mname}[{i}]", mdir, t])
        else:
          members.append([mname, mdir, t])
      ifc_pool[f"Ifc{k}"] = members
  # leaf classes first, then classes that may instantiate earlier ones
  levels = draw(st.integers(min(opts["min_depth"], opts["max_depth"]), opts["max_depth"]))
  idx = 0
  for lvl in range(levels):
    for _ in range(draw(st.integers(1, 2))):
      idx += 1
      name = f"C{idx}"
      sub = dict(opts); sub["max_steps"] = max(1, opts["max_steps"] // 2)
      cb = ClassBuilder(draw, name, sub, dict(pool) if lvl > 0 else {}, lvl)
      cb.ifc_pool = ifc_pool
      classes[name] = cb.build(False)
      pool[name] = classes[name]
  cb = ClassBuilder(draw, "Top", opts, pool, levels)
  cb.ifc_pool = ifc_pool
  classes["Top"] = cb.build(True)
  # drop classes never instantiated
  used = set()

  def visit(cn):
    if cn in used: return
    used.add(cn)
    for _, c in classes[cn]["children"]: visit(c)
  visit("Top")
  out = {"classes": {k: v for k, v in classes.items() if k in used}, "top": "Top"}
  used_ifcs = {i for c in out["classes"].values() for _, i in c.get("ifc_insts", [])}
  if used_ifcs: out["ifcs"] = {k: v for k, v in ifc_pool.items() if k in used_ifcs}
  return out


@st.composite
def input_seqs(draw, design, ncycles=None):
  """list of cycles; each cycle {"in": {port: value}, "reset": 0/1}"""
  from vf.strategies import uvalue
  top = design["classes"][design["top"]]
  ins = [(n, type_width(t)) for n, dr, t in top["ports"] if dr == "in"]
  n = ncycles or draw(st.integers(3, 8))
  seq = []
  prev = None
  for c in range(n):
    if prev is not None and draw(st.integers(0, 4)) == 0:
      cur = dict(prev)                       # hold the inputs
    else:
      cur = {p: draw(uvalue(w)) for p, w in ins}
    seq.append({"in": cur, "reset": 1 if (c == 0 and draw(st.booleans())) or draw(st.integers(0, 9)) == 0 else 0})
    prev = cur
  return seq


def features(design):
  """structural features of a generated design, for the evidence labels"""
  out = set()
  for c in design["classes"].values():
    if any("[" in i for i, _ in c["children"]): out.add("has_list_of_components")
    if c.get("ifc_insts"): out.add("has_interface")
    if any("[" in a for a, _ in c.get("ifc_insts", [])): out.add("has_list_of_interfaces")
    if any("." in n and n.endswith("]") for n, _, _ in c["ports"]): out.add("has_interface_with_port_list")
    if any(b.get("lambda") for b in c["blocks"]): out.add("has_lambda_connection")
    if c.get("funcs"): out.add("has_helper_function")
    if any("ret" in f for f in c.get("funcs", [])): out.add("has_value_returning_function")
    js = __import__("json").dumps([b["stmts"] for b in c["blocks"]])
    if any("ret" in f and js.count('"fcall", "%s"' % f["name"]) >= 2 for f in c.get("funcs", [])): out.add("has_function_called_twice")
    if any(b["kind"] == "ff" and '"inst": "' in __import__("json").dumps(b["stmts"]).replace('"inst": ""', "") for b in c["blocks"]): out.add("has_child_input_register")
    if any(f["stmts"] and all(x[0] == "call" for x in f["stmts"]) for f in c.get("funcs", [])): out.add("has_pure_wrapper_function")
    if any("[" in n for n, _, _ in c["ports"]) or any("[" in n for n, _ in c["wires"]): out.add("has_signal_list")
  return sorted(out)
